#!/bin/sh
# setup_cmd: build everything offline from files on disk (cargo registry cache + /repo + /verif/harness).
set -eu
mkdir -p /verif/target /verif/evidence /verif/replays
cd /verif/harness
export CARGO_NET_OFFLINE=true
cargo build --release --offline
echo "setup ok"
