#!/bin/sh
# setup_cmd: build everything offline from files on disk (cargo registry cache + /repo + /verif/harness).
set -eu
export CARGO_NET_OFFLINE=true
mkdir -p /verif/target /verif/evidence /verif/replays
cd /verif/harness
cargo build --release --offline
cd /repo
CARGO_TARGET_DIR=/verif/target/cli cargo build --release --offline -p typstyle
echo "setup ok"
