#!/bin/bash
# Run registered checks against a SCRATCH WORKTREE of /repo (with a seeded change applied there)
# without touching /repo, /verif/evidence or /verif/replays.
# usage: mutant_check.sh <worktree> <tier> <Cxx> [<Cxx> ...]
# A private copy of the harness is generated under /tmp/mh-<name> with its path dependency
# pointing at the worktree; results go to /tmp/mh-<name>/out.
set -u
WT=$(realpath "$1"); TIER=$2; shift 2
NAME=$(basename "$WT")
MH=/tmp/mh-$NAME
mkdir -p $MH/out/evidence $MH/out/replays
rsync -a --delete --exclude target ${HARNESS_SRC:-/verif/harness}/ $MH/harness/
sed -i "s#/repo/crates/typstyle-core#$WT/crates/typstyle-core#" $MH/harness/tyv-run/Cargo.toml
printf '[net]\noffline = true\n[build]\ntarget-dir = "%s/target"\nrustflags = ["--cfg", "typstyle_verif"]\n' "$MH" > $MH/harness/.cargo/config.toml
export CARGO_NET_OFFLINE=true
(cd $MH/harness && cargo build --release --offline -q -p tyv-run 2>$MH/build.log) || { echo "MACHINERY: build failed"; tail -20 $MH/build.log; exit 2; }
need_cli=0; for c in "$@"; do case $c in C14|C15|C16) need_cli=1;; esac; done
if [ $need_cli = 1 ]; then
  (cd $WT && CARGO_TARGET_DIR=$MH/cli cargo build --release --offline -q -p typstyle 2>$MH/build-cli.log) || { echo "MACHINERY: CLI build failed"; tail -20 $MH/build-cli.log; exit 2; }
fi
rc=0
for c in "$@"; do
  cd /verif
  VERIF_OUT_ROOT=$MH/out VERIF_CLI_BIN=$MH/cli/release/typstyle VERIF_REPO=$WT $MH/target/release/tyv $c $TIER > $MH/out/$c.log 2>&1
  r=$?
  echo "$c: exit $r :: $(grep -c '^VIOLATION' $MH/out/$c.log) violation line(s) :: $(tail -1 $MH/out/$c.log | cut -c1-200)"
  [ $r -ne 0 ] && rc=1
done
exit $rc
