#!/bin/sh
# Run the repository's own suite (guard off) and print the summary line. Expected: 1923 passed, 14 failed (e2e need network).
cd "${1:-/repo}" && cargo nextest run --workspace --no-fail-fast --test-threads 8 --offline 2>&1 | grep -E "Summary|error\[|^error:" | head -5
