#!/bin/bash
# Re-run every seeded change in /verif/seeded against the quick tier of the checks recorded in its
# meta.json ("detected_by"), on a scratch worktree of /repo HEAD. Never touches /repo.
# usage: seeded_regression.sh [<seeded-id> ...]      (default: all)
# A patch that no longer applies to /repo HEAD is checked on the commit recorded in meta.json (applies_to).
# Prints one line per (change, check): CAUGHT (exit 1 with a VIOLATION line) or MISSED.
set -u
WT=/tmp/wt-seeded
git -C /repo worktree remove --force $WT 2>/dev/null
git -C /repo worktree add -q --detach $WT HEAD || exit 2
ids=("$@")
[ ${#ids[@]} -eq 0 ] && ids=($(ls /verif/seeded))
for id in "${ids[@]}"; do
  d=/verif/seeded/$id
  patch=$d/patch.diff
  [ -f $d/patch_rebased_on_repo_head.diff ] && patch=$d/patch_rebased_on_repo_head.diff
  # meta.json records the newest /repo commit the patch applies to (usually HEAD) and which file to use
  base=$(python3 -c "import json;m=json.load(open('$d/meta.json')).get('applies_to',{});print(m.get('repo_commit',''),m.get('patch_file',''))")
  bc=${base%% *}; bf=${base##* }
  git -C $WT checkout -q HEAD -- . ; git -C $WT clean -fdq crates
  git -C $WT checkout -q --detach $(git -C /repo rev-parse HEAD)
  if ! git -C $WT apply --check $patch 2>/dev/null; then
    if [ -n "$bc" ] && git -C $WT checkout -q --detach $bc 2>/dev/null && git -C $WT apply --check $d/$bf 2>/dev/null; then
      patch=$d/$bf; echo "$id: (patch applies to $bc, not to /repo HEAD: checked there)"
    else echo "$id: PATCH DOES NOT APPLY"; continue; fi
  fi
  git -C $WT apply $patch
  checks=$(python3 -c "
import json,re,sys
m=json.load(open('$d/meta.json'))
s=[]
for x in m.get('detected_by',[]):
    c=re.match(r'(C\d\d)',x)
    if c and c.group(1) not in s: s.append(c.group(1))
print(' '.join(s))")
  out=$(/verif/tools/mutant_check.sh $WT quick $checks 2>&1)
  while read -r line; do
    c=${line%%:*}
    case "$line" in
      C??:\ exit\ 1\ ::\ 0\ violation*) echo "$id $c: MACHINERY? $line";;
      C??:\ exit\ 1*) echo "$id $c: CAUGHT ($(echo "$line" | grep -o '[0-9]* violation line(s)'), $(echo "$line" | grep -o 'exhaustive=[a-z]*'), $(echo "$line" | grep -o 'wall=[0-9.]*s'))";;
      C??:\ exit\ 0*) echo "$id $c: MISSED ($(echo "$line" | grep -o 'exhaustive=[a-z]*'))";;
      *) echo "$id: $line";;
    esac
  done <<< "$out"
done
git -C /repo worktree remove --force $WT
rm -rf /tmp/mh-wt-seeded
