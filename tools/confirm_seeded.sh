#!/bin/bash
# Confirm a seeded change in its scratch worktree and file it under /verif/seeded/<id>/.
# usage: confirm_seeded.sh <worktree> <demo-subdir> <seeded-id> <property> "<demo command, run from the worktree root>"
# Confirms: (1) the patch applies to the worktree HEAD, (2) the repository suite still gives 1923 passed,
# (3) the demonstration fails with the change, (4) passes without it.
set -u
WT=$1; SUB=$2; ID=$3; PROP=$4; DEMO=$5
D=$WT/demo/$SUB
OUT=/verif/seeded/$ID
mkdir -p $OUT
cd $WT || exit 2
git checkout -q -- . 2>/dev/null
git apply --check $D/patch.diff || { echo "patch does not apply"; exit 2; }
git apply $D/patch.diff
SUITE=$(cargo nextest run --workspace --no-fail-fast --test-threads 8 --offline 2>&1 | grep -E "Summary" | tail -1)
echo "suite with change: $SUITE"
bash -c "$DEMO" > $OUT/demo_with_change.log 2>&1; WITH=$?
git checkout -q -- crates
git status --short | grep -v '^??' && echo "WARNING: worktree not clean"
bash -c "$DEMO" > $OUT/demo_without_change.log 2>&1; WITHOUT=$?
echo "demo exit with change: $WITH ; without: $WITHOUT"
cp $D/patch.diff $OUT/patch.diff
mkdir -p $OUT/demo && cp -r $D/* $OUT/demo/ 2>/dev/null
rm -f $OUT/demo/patch.diff
python3 - "$OUT" "$ID" "$PROP" "$SUITE" "$WITH" "$WITHOUT" "$DEMO" <<'PY'
import json, sys, os
out, sid, prop, suite, w, wo, demo = sys.argv[1:8]
notes = ""
p = os.path.join(out, "demo", "NOTES.md")
if os.path.exists(p):
    notes = open(p).read()
meta = {
  "id": sid, "property": prop,
  "source": "written by an independent sub-agent that saw only the property text and its own scratch worktree of /repo",
  "needs_to_manifest": notes[:1500],
  "confirmed": {
     "repository_suite_with_change": suite.strip(),
     "demonstration_command": demo,
     "demonstration_exit_with_change": int(w),
     "demonstration_exit_without_change": int(wo),
     "confirmed_in": "scratch worktree outside /repo and /verif; logs: demo_with_change.log, demo_without_change.log",
  },
  "detected_by": [],
}
json.dump(meta, open(os.path.join(out, "meta.json"), "w"), indent=1)
PY
echo "filed $OUT"
