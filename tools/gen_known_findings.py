#!/usr/bin/env python3
"""Writes /verif/known_findings.json from the table below.

The JSON file is the committed artefact the checks read (they never write it). This script only
exists so that the table can be edited and re-rendered by hand; it is not run by any check.

An entry is identified by:
  pattern : regular expression searched in the failure signature
            (property|clause|call site: construct, gap, trivia family / scenario)
  example : an exact input that is re-checked on every run; if it no longer fails the entry is dead
            and matches nothing.
status "open"  = genuine defect recorded, not repaired (printed as KNOWN-FINDING, exit 0)
status "fixed" = repaired by a fix: commit in /repo (suppresses nothing; listed for the record)
"""
import json, subprocess

PRELUDE = '#import "m.typ": *\n#show: setup\n\n'

def fixed(prop, commit_subject, what):
    out = subprocess.run(["git", "-C", "/repo", "log", "--format=%h %s"], capture_output=True, text=True).stdout
    sha = ""
    for l in out.splitlines():
        if commit_subject in l:
            sha = l.split()[0]
    assert sha, commit_subject
    return {"id": f"fixed-{prop}-{sha}", "property": prop, "status": "fixed", "commit": sha, "pattern": "", "example": {},
            "what_fails": what, "class": "fixed", "record": f"fixed: property={prop} {sha} {what}"}

OPEN = []
def kf(id, cls, prop, pattern, example_input, what, clause=None, extra=None):
    ex = {"input": example_input}
    if clause:
        ex["clause"] = clause
    if extra:
        ex.update(extra)
    OPEN.append({"id": id, "class": cls, "property": prop, "status": "open", "pattern": pattern, "example": ex, "what_fails": what})

# --------------------------------------------------------------------------- K1: literal line ends (P7)
P7 = "the post-processing pass strips blanks at the end of every output line, also inside multi-line strings and raw blocks (cannot be repaired without violating C11 for the same input)"
kf("K1-C01", "P7 literal-line-trailing-blanks", "C01", r"^C01\|literal-line-trailing-blanks\|", "```\nx  \ny\n```", P7, "literal-line-trailing-blanks")
kf("K1-C10", "P7 literal-line-trailing-blanks", "C10", r"^C10\|literal-line-trailing-blanks\|", "#let v = \"a  \nb\"", P7, "literal-line-trailing-blanks")
kf("K1-C02", "P7 literal-line-trailing-blanks", "C02", r"^C02\|rendering-differs\|dev=\w+:\w+>Raw\[", PRELUDE + "#[\n  ```py\n  x  y\n  \n```\n]", "a whitespace-only line before the closing fence of a raw block loses its blanks, which changes the dedent and the rendered raw text: " + P7, "rendering-differs")

# --------------------------------------------------------------------------- K2: math row trailing comma (P13)
P13 = "a line comment inside a row of 2D math arguments forces the broken layout, which adds a trailing comma to the row (an extra empty cell); pinned by the repository's own snapshot unit/comment/in-math.typ, so it cannot be repaired without editing the suite"
ROW = r"dev=math:\w+>Array\[[^\]]*\]:(lc|lc_sp|lc_lc|nl_lc|off_lc|off_reason)"
kf("K2-C01", "P13 math-row-trailing-comma", "C01", r"^C01\|tree\|(.*&)?" + ROW, "$mat(x,//c1\ny; z, u)$", P13, "tree")
kf("K2-C02", "P13 math-row-trailing-comma", "C02", r"^C02\|rendering-differs\|(.*&)?" + ROW, PRELUDE + "$mat(x,//c1\ny; z, u)$", P13, "rendering-differs")
kf("K2-C03", "P13 math-row-trailing-comma", "C03", r"^C03\|not-idempotent\|(.*&)?" + ROW, "$mat(x,//c1\ny; z, u)$", P13 + " - and the second pass moves it", "not-idempotent")
kf("K2-C13", "P13 math-row-trailing-comma", "C13", r"^C13\|splice-changes-tree\|(.*&)?" + ROW, "$mat(x,//c1\ny; z, u)$", P13, "splice-changes-tree")

# --------------------------------------------------------------------------- K3: adjacent block comments in math (P16)
P16 = "two adjacent block comments inside math delimiters get a space between them: whitespace is created between math atoms where the source had none"
kf("K3-C01", "P16 math-adjacent-comments", "C01", r"^C01\|tree\|(.*&)?dev=math:\w+>MathDelimited\[[^\]]*\]:bc_bc", "$(/*c1*//*c2*/x)$", P16, "tree")
kf("K3-C13", "P16 math-adjacent-comments", "C13", r"^C13\|splice-changes-tree\|(.*&)?dev=math:\w+>MathDelimited\[[^\]]*\]:bc_bc", "$(/*c1*//*c2*/x)$", P16 + " (range formatting of the equation or the document)", "splice-changes-tree")
kf("K3-C03", "P16 math-adjacent-comments", "C03", r"^C03\|not-idempotent\|(.*&)?dev=math:\w+>(MathDelimited|MathFrac|MathAttach|MathRoot)\[[^\]]*\]:(bc_bc|bc|lc|lc_sp|lc_lc|nl_lc|bc_sp|off_lc|off_bc|off_tight|off_reason|off_mid)[|&]", "$f(#1//c1\n)$", "a comment inside math delimiters gets its separating space from two places; the second pass adds another space (converges after two passes)", "not-idempotent")
kf("K3b-C09", "P16 math-adjacent-comments", "C09", r"^C09\|ws-added\|(.*&)?dev=math:\w+>MathDelimited\[[^\]]*\]:bc_bc", "$(/*c1*//*c2*/x)$", P16, "ws-added")
kf("K3-C09", "P16 math-adjacent-comments", "C09", r"^C09\|ws-added\|extra=math:\w+:(.*[+⏎_])?/\*c\*/\+/\*c\*/", "$(/*c*//*c*/)$", P16, "ws-added")

# --------------------------------------------------------------------------- K4: line break before a comment in math becomes a space (P17)
kf("K4-C09", "P17 math-break-next-to-comment", "C09", r"^C09\|break-to-space\|extra=math:\w+:.*(⏎/\*c\*/|/\*c\*/⏎)", "$(&\n/*c*/)$", "inside math delimiters / call arguments a line break directly before or after a block comment is printed as a space when the group fits on one line", "break-to-space")

# --------------------------------------------------------------------------- K5: block comment before a list marker (P15)
P15 = "a multi-line block comment directly in front of a list/enum/term marker after '[': the comment's continuation lines are re-indented but the marker keeps following it, so the marker's column - and with it the nesting of the following lines - changes"
MARK = r"dev=markup:\w+>ContentBlock\[LeftBracket\^(List|Enum|Term)Marker\]:(bc_star|bc_ml|bc_ws_line|bc_blank|bc_tab|bc_uni)"
kf("K5-C01", "P15 comment-before-list-marker", "C01", r"^C01\|tree\|(.*&)?" + MARK, "#g[/* c1\n * d\n */- foo\n    bar\n]", P15, "tree")
kf("K5-C03", "P15 comment-before-list-marker", "C03", r"^C03\|not-idempotent\|(.*&)?" + MARK, "#g[/* c1\n * d\n */- foo\n    bar\n]", P15, "not-idempotent")

kf("K5-C13", "P15 comment-before-list-marker", "C13", r"^C13\|splice-changes-tree\|(.*&)?" + MARK, "#g[/* c1\n * d\n */- foo\n    bar\n]", P15 + " (range formatting of the call or the document)", "splice-changes-tree")
kf("K8l-C13", "directive in front of a list item after '['", "C13", r"^C13\|splice-changes-tree\|(.*&)?dev=markup:\w+>ContentBlock\[LeftBracket\^(List|Enum|Term)Marker\]:(off_lc|off_reason)[|&]", "#g[// @typstyle off\n- foo\n  - bar\n]", "a line-comment directive directly after '[' protects the list item that follows; the item's text is copied with its source indentation while the block around it is re-indented, so its continuation lines and children change their nesting", "splice-changes-tree")
kf("K15-C13", "chain in parentheses in front of an intra-word '*'", "C13", r"^C13\|splice-has-syntax-errors\|extra=damage:replace:\*@\d+:", "#a.f(b).g*c)", "a method chain embedded in markup that is followed directly by '*' and a word character: when the chain breaks it is wrapped in parentheses, and after ')' the '*' opens strong emphasis instead of being text", "splice-has-syntax-errors")
kf("K17-C13", "'.' with a subscript directly after a hashed identifier", "C13", r"^C13\|splice-changes-tree\|extra=damage:delete@\d+:math_\w+/m_hash_subsup", "$#a. _ x ^ y$", "'#a. _ x' in math: the blanks of the attachment are removed, and '#a._x' is a field access", "splice-changes-tree")

# --------------------------------------------------------------------------- K6: list items in a content block whose bracket cannot be broken
D5 = "a list/enum/term item that starts right after '[' inside a context where the bracket cannot be moved to its own line (strong/emph body, a line of text, a heading): the following lines are indented by one unit relative to the enclosing indentation, not relative to the marker, so with tab width 4 (or deeper nesting) they change their nesting"
kf("K6-C08", "D5 list-after-bracket-unbreakable", "C08", r"^C08\|tokens-moved-between-markup-nodes\|", "*#[- foo\n\n  bar\n]*", D5, "tokens-moved-between-markup-nodes")
kf("K6-C02", "D5 list-after-bracket-unbreakable", "C02", r"^C02\|rendering-differs\|spine=(mixed|strong|heading|item)/content\w*(@\d)?/(list|enum|term)\w*\|", PRELUDE + "foo #[- foo\n- bar] bar", D5, "rendering-differs")
kf("K16-C02", "comment on its own line adds a space element", "C02", r"^C02\|rendering-differs\|(.*&)?dev=markup:(Array|Named|Keyed|Dict)>ContentBlock\[LeftBracket\^\w+\]:(lc|lc_sp|lc_lc|nl_lc|off_lc|off_reason)[|&]", PRELUDE + "#([//c1\nfoo],)", "a line comment directly after '[' is moved to its own line, which puts a second space element in front of the content; the difference is visible only where content is shown through repr (an array or dict item displayed as a value)", "rendering-differs")
kf("K6b-C01", "D5 list-after-bracket-unbreakable (text line built by a production)", "C01", r"^C01\|tree\|spine=(doc|hash|item|heading|content_ml)/[^|]*/content\w*(@\d)?/(list|enum|term)\w*\|", "_#[- foo\n- bar]_", D5 + " - here the unbreakable surroundings come from a production (emph / strong body, code followed by text, a sequence on one line)", "tree")
kf("K6-C01", "D5 list-after-bracket-unbreakable", "C01", r"^C01\|tree\|(spine=(strong|mixed|heading|item)/|(.*&)?dev=markup:\w*>(Strong|Emph|Heading|ListItem|EnumItem|TermItem|Markup|ContentBlock)\[[^\]]*(Marker|Hash|LeftBracket|RightBracket|Star|Underscore)[^\]]*\][^|]*\|at=[^|]*(list|enum|term|text_list)\w*)", "*#[- foo\n\n  bar\n]*", D5, "tree")

K13 = "a lone '-' next to the closing ']' of a content block whose last element is a list item: as plain text ('-]') it becomes an empty item when the bracket is moved to its own line; as an empty item ('- ]') it becomes plain text when the blank before ']' is dropped"
kf("K13-C02", "lone marker next to ']'", "C02", r"^C02\|rendering-differs\|(spine|dev=.*\|at)=\S*/list_nest_empty", PRELUDE + "#{\n  [- foo\n    -]\n}", K13, "rendering-differs")
kf("K13-C13", "lone marker next to ']'", "C13", r"^C13\|splice-changes-tree\|(spine|dev=.*\|at|extra=damage:\w+@\d+:\S*)[=/]\S*list_nest_empty", "#g[\n  - foo\n    -]", K13 + " (range formatting of the call or the document)", "splice-changes-tree")
kf("K8m-C03", "block comment with a blank-only line inside math call arguments", "C03", r"^C03\|not-idempotent\|(.*&)?dev=math:[^|&]*:(bc_ws_line|bc_tab_line)[|&]", "$fn(k/*c1\n    d\n  \n    e*/: x)$", "a multi-line block comment with a whitespace-only line inside math (call arguments, delimiters, matrix rows), at a width where the group just fits: the first pass breaks the arguments, the second (which sees the blank line emptied by the trailing-blank pass) keeps them on one line", "not-idempotent")
kf("K14-C01", "parentheses around an array on the left of '='", "C01", r"^C01\|tree\|spine=[^|]*/(assign|destruct)\w*(@\d)?/(paren\w*|pat_paren)(@\d)?/(arr0|pat_sink0)\|", "#{\n  (()) = a\n}", "'(()) = a' / '((..r)) = a': the redundant parentheses around an empty or spread-only array on the left of an assignment are removed, which turns the (meaningless) assignment to a parenthesised array into a destructuring assignment", "tree")
kf("K13-C06", "lone marker next to ']'", "C06", r"^C06\|moved-across-word\|(.*&)?dev=[^|]*\|at=[^|]*list_nest_empty", "#{\n  [- foo\n    -]/*c1*/}", K13 + " - the census position of every later comment shifts by one word", "moved-across-word")
kf("K14-C03", "parentheses around an array on the left of '='", "C03", r"^C03\|not-idempotent\|spine=[^|]*/(assign|destruct)\w*(@\d)?/(paren\w*|pat_paren)(@\d)?/(arr0|pat_sink0|dict0)\|", "#{\n  ((..r)) = a\n}", "'((..r)) = a': the first pass removes the redundant parentheses and prints the spread-only array with a trailing comma; read as a destructuring pattern by the second pass it is laid out differently", "not-idempotent")
kf("K14-C04", "parentheses around a dict on the left of '='", "C04", r"^C04\|erroneous-output\|spine=[^|]*/(assign|destruct)\w*(@\d)?/paren\w*(@\d)?/dict0\|", "#{\n  ((:)) = a\n}", "'((:)) = a': the redundant parentheses around an empty dict on the left of an assignment are removed; '(:) = a' is read as a destructuring with an invalid pattern", "erroneous-output")
kf("K13-C01", "lone marker-like text before ']'", "C01", r"^C01\|tree\|(spine|dev=.*\|at)=\S*/list_nest_empty", "#{\n  [- foo\n    -]\n}", "a lone '-' (or '+', '=') that is plain text because ']' follows it directly, at the start of the last line of a multi-line content block whose last element is a list item: the closing bracket is moved to its own line (the repair of P14) and the token becomes an empty list item", "tree")

# --------------------------------------------------------------------------- K7: parentheses around a literal removed before text (P1)
P1 = "'#(auto)bar', '#(1)a', '#(none)x': the parentheses around a literal embedded in markup are removed and the literal fuses with the text that follows"
kf("K7-C08", "P1 paren-removal-fuses-literal", "C08", r"^C08\|text-changed\|(.*&)?dev=markup:\S*>Markup\[RightParen\^Text\]:none", "foo #(auto)bar", P1, "text-changed")
kf("K7-C01", "P1 paren-removal-fuses-literal", "C01", r"^C01\|tree\|(spine=\w+/hash_tight@0/paren\w*@0/|(.*&)?dev=markup:\S*>Markup\[RightParen\^Text\]:none)", "foo #(auto)bar", P1, "tree")
kf("K7-C04", "P1 paren-removal-fuses-literal", "C04", r"^C04\|erroneous-output\|(spine=\w+/hash_tight@0/paren\w*@0/|(.*&)?dev=markup:\S*>Markup\[RightParen\^Text\]:none)", "#(1)foo", P1 + " ('#1foo' is a number with an invalid suffix)", "erroneous-output")
kf("K7-C10", "P1 paren-removal-fuses-literal", "C10", r"^C10\|literal-changed\|((.*&)?dev=markup:\S*>Markup\[RightParen\^Text\]:none|extra=lit:[\w+]+@[\w/@]*hash_tight(@\d)?/paren)", "foo #(auto)bar", P1, "literal-changed")

# --------------------------------------------------------------------------- K8: convergence classes
E = "a node that always breaks (code block with two statements or with a comment, an import list at width 0, a table) inside a context where line breaks are suppressed (a line of text, an equation): the first pass emits the hard breaks inside an otherwise flat layout, the second pass then sees a multi-line source and lays the surroundings out differently (converges after two passes)"
kf("K8a-C03", "E forced-break-under-suppression", "C03", r"^C03\|not-idempotent\|spine=(mixed|math_i|math_b|math_hash|item|heading|strong)/[^|]*(block2_semi|block2_ml|import\w*|table\w*|grid\w*)[^|]*\|size=", "foo #({a; b},) bar", E, "not-idempotent")
kf("K8a2-C03", "E forced-break-under-suppression (text line built by a production)", "C03", r"^C03\|not-idempotent\|spine=(doc/(hash_text|hash_tight|text_hash)(@\d)?|hash/[^/|]+)/[^|]*(block2_semi|block2_ml|import\w*|table\w*|grid\w*)\|size=", "#if a { import \"m.typ\": a } foo", E + " - here the text line comes from a production (code followed by text on the same line; in markup a binary operator after an embedded expression is text)", "not-idempotent")
kf("K8k-C03", "E forced-break-under-suppression (with a deviation elsewhere)", "C03", r"^C03\|not-idempotent\|dev=.*\|at=(mixed|math_i|math_b|math_hash|hash|item|heading|strong|let|arg|doc)/.*(block2_semi|block2_ml)", "#if a { {b; c} } elseif d { e }", E, "not-idempotent")
kf("K6-C03", "D5 list-after-bracket-unbreakable", "C03", r"^C03\|not-idempotent\|(spine=|dev=.*\|at=|extra=gen2:)(mixed|strong|heading|item)/content\w*@0/(list|enum|term)\w*", "foo #[- foo\n- bar] bar", D5 + " - with tab width 8 the first pass nests the second item and the second pass nests it further", "not-idempotent")
kf("K8l-C03", "directive at the end of a list item line", "C03", r"^C03\|not-idempotent\|(.*&)?dev=markup:(ListItem>Markup\[Text\^ListMarker\]|Markup>(List|Enum)Item\[(List|Enum)Marker\^(List|Enum)Marker\]):(off_lc|off_reason)", "#g[\n  -// @typstyle off\n- foo\n      bar\n]", "a line-comment directive at the end of a list item line protects the following list item; its verbatim text keeps the source indentation, which the next pass reads as a different nesting", "not-idempotent")
kf("K8b-C03", "E forced-break-under-suppression", "C03", r"^C03\|not-idempotent\|(.*&)?dev=code:\w+>(CodeBlock|Code)\[[^\]]*\]:(bc|bc_sp|bc_ml|bc_star|bc_bc|nl_bc_nl|lc|lc_sp|lc_lc|nl_lc|off_bc|off_lc|off_tight|off_reason|off_mid|bc_ws_line|bc_blank|bc_tab|bc_uni)", "$#g({a/*c1*/})$", E, "not-idempotent")
kf("K8c-C03", "E / trivia inside a field access chain", "C03", r"^C03\|not-idempotent\|(.*&)?dev=\w+:\w+>FieldAccess\[.*\|at=.*(block2_semi|block2_ml|import\w*|table\w*|grid\w*)", "#a.f({b; c}).\ng(d)", "a line break or comment inside a method chain whose call arguments hold a node that always breaks: " + E, "not-idempotent")
kf("K8d-C03", "H asymmetric content block edge", "C03", r"^C03\|not-idempotent\|(.*&)?dev=markup:\w+>ContentBlock\[(LeftBracket\^\w+|\w+\^RightBracket)\]", "#[ $ x $]", "a content block with a blank at only one of its inner edges whose content breaks at a narrow width: the first pass keeps the blank as a space because the source is on one line, the second pass sees a multi-line source and turns it into a line break", "not-idempotent")
kf("K8d2-C03", "H asymmetric content block edge (heading)", "C03", r"^C03\|not-idempotent\|extra=prose:block_heading_sp:", "#[= #g(a, b) ]", "a heading inside a content block, followed by a blank before ']', whose content breaks at a narrow width: the first pass keeps the blank as a space, the second pass sees a multi-line source and turns it into a line break", "not-idempotent")
kf("K8d3-C03", "H asymmetric content block edge (comment at the edge)", "C03", r"^C03\|not-idempotent\|extra=prose:(block|call_trailing|if_block|in_code|nested|emph|strong):(/\*c\*/_.*|.*_/\*c\*/)$", "#[#g(a, b) /*c*/]", "a block comment at the inner edge of a content block (or strong / emph body) whose other content breaks at a narrow width: the first pass prints a blank between the comment and the closing delimiter, the second pass reads that as a blank at one edge only and breaks there", "not-idempotent")
kf("K8e-C03", "P12 heading with line comment", "C03", r"^C03\|not-idempotent\|(.*&)?dev=markup:[\w-]*>(Heading|Markup)\[HeadingMarker\^\w+\]:(lc|lc_sp|lc_lc|nl_lc|off_lc|off_reason)", "=//c1\nfoo", "a line comment directly after a heading marker gains a space on the second pass", "not-idempotent")
kf("K8e2-C03", "P12 heading with line comment (a '=' that starts a line)", "C03", r"^C03\|not-idempotent\|dev=\w+:[^|&]*\[\w+\^(Eq|EqEq|Text)\]:(nl|nl2|nl4|lc|nl_lc|lc_sp|cr|crlf)&dev=\w+:[^|&]*\[(Eq|EqEq|Text)\^\w+\]:(lc|lc_sp|lc_lc|nl_lc|off_lc|off_reason|bc|bc_sp)[|&]", "#let p\n=//c3\na", "a line break before '=' ends the embedded statement, the '=' that now starts a line is a heading marker, and the comment directly after it gains a space on the second pass (same class as K8e)", "not-idempotent")
kf("K8f-C03", "adjacent comments after a chain operator", "C03", r"^C03\|not-idempotent\|(.*&)?dev=\w+:\w+>(Binary\[\w+\^\w+\]|FieldAccess\[Dot\^Ident\]):bc_bc", "#let v = a + b +/*c1*//*c2*/c", "two adjacent block comments after an operator of a broken binary chain (or after the dot of a broken method chain) are printed tight by the first pass and spaced by the second", "not-idempotent")
kf("K8h-C03", "E / comment between call parts", "C03", r"^C03\|not-idempotent\|(.*&)?dev=markup:\w+>(FuncCall\[Ident\^LeftParen\]|Args\[RightParen\^LeftBracket\]):(bc|bc_sp|bc_ml|bc_star|bc_bc|sp|off_bc|off_tight|off_mid|bc_ws_line|bc_blank|bc_tab|bc_uni).*\|at=.*(block2_semi|block2_ml|import\w*|table\w*|grid\w*)", "#a({b; c})/*c1*/[foo]", "a comment (or blank) between the parts of a call whose argument holds a node that always breaks: " + E, "not-idempotent")
kf("K8i-C03", "comment before ')' of a parenthesised import list", "C03", r"^C03\|not-idempotent\|(.*&)?dev=code:\w+>ModuleImport\[Ident\^RightParen\]:(bc|bc_sp|bc_ml|bc_star|bc_bc|off_bc|off_tight|off_mid|bc_ws_line|bc_blank|bc_tab|bc_uni)", "#{import \"m.typ\": (b, a/*c1*/)}", "a block comment before the closing parenthesis of an import list inside a code block: the first pass drops the parentheses and keeps the block on one line, the second pass breaks the block", "not-idempotent")
kf("K8j-C03", "directive before an operand that gets optional parentheses", "C03", r"^C03\|not-idempotent\|(.*&)?dev=code:\w+>(ForLoop\[In\^\w+\]|Closure\[(Arrow|Eq)\^\w+\]):(off_bc|off_lc|off_tight|off_reason|off_mid)", "#for p in/* @typstyle off */a { b }", "an '@typstyle off' comment in front of a for-loop iterable or a closure body: at a narrow width the verbatim operand is wrapped in optional parentheses/braces by the first pass and the rest of the statement is laid out differently by the second", "not-idempotent")
kf("K8n-C03", "directive directly before a comma", "C03", r"^C03\|not-idempotent\|(.*&)?dev=code:\w+>\w+\[\w+\^Comma\]:(off_bc|off_tight|off_mid)[|&]", "#g((..a/* @typstyle off */, k:/* @typstyle off */b * c))", "an '@typstyle off' block comment between a list item and its comma is printed behind the comma (as every comment is); there it precedes the next item, which the second pass therefore treats as protected - a directive inside that item then loses its effect and its node is laid out anew", "not-idempotent")
kf("K8g-C03", "table.<newline>header", "C03", r"^C03\|not-idempotent\|(.*&)?dev=\w+:\w+>FieldAccess\[Dot\^Ident\].*\|at=.*(table_hdr\w*|table_ftr\w*|grid_ftr\w*)", "#(table(columns: 2, table.\nheader(a, b), c, d))", "'table.header' written with a line break after the dot is not recognised as a header row by the first pass (the callee text is compared verbatim), but is by the second", "not-idempotent")

# --------------------------------------------------------------------------- K9: comment inside 'not in'
kf("K9-C06", "comment inside 'not in'", "C06", r"^C06\|moved-across-word\|(.*&)?dev=code:\w+>Binary\[Not\^In\]", "#a(b not/*c1*/in c)", "a comment between the two words of the 'not in' operator is moved in front of 'not' (across a word, not only across punctuation)", "moved-across-word")

# --------------------------------------------------------------------------- K10: comment at line start gets one extra space (P20)
kf("K10-C12", "P20 comment-at-line-start-plus-one", "C12", r"^C12\|not-multiple-of-unit\|(.*&)?dev=(math|markup):\S+\]:(nl_lc|lc_lc|nl_bc_nl|off_lc|off_reason)", "$(x\n//c1\n)$", "a comment that starts a line inside math delimiters, math arguments or a list item is indented by k*unit + 1: a separator space is emitted after the line break (pinned by the repository's snapshots unit/markup/term-indent.typ and unit/comment/in-math.typ)", "not-multiple-of-unit")

# --------------------------------------------------------------------------- K12: recursion depth (P11)
kf("K12-C05", "P11 recursion-depth", "C05", r"^C05\|nesting-beyond-required-depth\|ladder=", "", "the printer recurses over the tree and overflows an 8 MiB stack at nesting depths (between 4 096 and 16 384 levels) at which the parser alone still succeeds; success up to 2 048 levels is a hard condition of the check", None, {"ladder": "call", "depth": 16384})


# --------------------------------------------------------------------------- K18-K20: items that start on the line of another item's marker
SAME = r"(list_list3?|enum_wide_list|enum_wide_enum|list_enum_same|term_list_same)"
K18 = "an item that starts on the line of another item's marker ('- - a', '10. - a'): what belongs to the outer item must be indented by at most the column of the inner marker (marker width + 1), so that indentation follows the marker and not the indent unit; a multiple of the unit would put the line into the wrong item (cannot hold together with C01 for the same input; before the repair of the nesting defect the lines were indented by the unit and left their item)"
kf("K18b-C12", "same-line nested item behind a comment: indentation follows the marker", "C12", r"^C12\|(indent-not-proportional|not-multiple-of-unit)\|(.*&)?dev=markup:[^|&]*Markup\[(List|Enum|Term)Marker\^(List|Enum|Term)Marker\]:\w+[|&]", "-/*c1\n  d*/- #[\n  foo\n]", K18 + " - here the inner item follows a comment on the line of the outer marker", "not-multiple-of-unit")
kf("K18-C12", "same-line nested item: indentation follows the marker", "C12", r"^C12\|(indent-not-proportional|not-multiple-of-unit)\|.*" + SAME, "- - foo\n    bar", K18, "indent-not-proportional")
P7B = "a blank character that is TEXT in markup (no-break space, ideographic space, em space) at the end of a line is removed by the trailing-blank pass: the prose loses a character (cannot be repaired without violating C11 for the same input: no line may end in a blank character)"
kf("K1b-C08", "P7 text blank at a line end", "C08", r"^C08\|text-changed\|extra=ws:\w+:TEXTBLANK", "Alpha beta\u00a0\ngamma delta", P7B, "text-changed")
kf("K1b-C01", "P7 text blank at a line end", "C01", r"^C01\|tree\|extra=ws:\w+:TEXTBLANK", "#[Alpha beta\u00a0\ngamma delta]", P7B, "tree")

FIXED = [
  fixed("C01", "treat every Typst newline character", "CR / VT / FF / NEL / LS / PS inside whitespace were printed as a space: paragraph breaks vanished, line comments swallowed the next line (also C02 C04 C06 C08 C09)"),
  fixed("C04", "keep the parentheses of a single closure parameter", "'(/*c*/x) => x' lost its parentheses, the output no longer parsed (also C01)"),
  fixed("C04", "always break the line after a trailing line comment before a closing", "'$x //c<newline>$' and '$f(x //c<newline>)$': the closing delimiter ended up inside the comment (also C03 C06)"),
  fixed("C01", "print 'not in' per operand", "'a not in b in c' lost its 'not'; 'a in b not in c' gained one"),
  fixed("C01", "keep math mode inside the rows of 2D math arguments", "'mat(mat(x, y; z, u), v; w, x)' lost the inner semicolon (also C02 C09)"),
  fixed("C01", "break after '[' when a multi-line content block starts or ends with a list item", "'#[- a<newline>- b]' / '#[- a<blank line>text]': siblings and following paragraphs became children of the first item (also C02 C08)"),
  fixed("C03", "do not print a kept blank line as extra spaces", "'#f(a, b,<blank line> c)' printed as '#f(a, b,  c)', the next run removed the space"),
  fixed("C03", "do not use the multi-line table layout inside a line of text", "a table/grid call embedded in a text line was laid out with hard breaks and re-laid out by the next run"),
  fixed("C03", "separate a detached comment from the last item of a folded list", "'#f(1<newline>/*c*/<newline>)' -> '#f(1/*c*/ )' -> '#f(1 /*c*/)'"),
  fixed("C13", "clamp a range that ends past the text", "every range ending past the end of the text panicked"),
  fixed("C13", "range formatting must not format a nested markup node on its own", "'#[ a ]' spliced back as '#[a]'; nested list items re-indented relative to the wrong column"),
  fixed("C05", "do not panic on a math call whose parentheses contain only whitespace", "'$f( )$' panicked (slice index out of order)"),
  fixed("C13", "range formatting converts an expression after '#' in an equation in code mode", "'$#a( )$' range-formatted with the math argument layout (panic)"),
  fixed("C13", "range formatting infers the indentation from the line of the selected node", "a list item selected from a continuation line was re-indented relative to the wrong column"),
  fixed("C13", "range formatting must not select a whitespace node (also not as a pattern)", "a range inside a paragraph break replaced it by bare line feeds: the following line left its list item"),
  fixed("C13", "range formatting keeps a method callee together with its call", "'a.f(b).g' selected out of 'a.f(b).g(c)' could be wrapped in parentheses: a method call became a call of a field value"),
  fixed("C13", "range formatting suppresses optional line breaks inside equations", "embedded code inside an equation was broken over lines by range formatting, which ends the expression"),
  fixed("C15", "format-all must not skip the given directory when its own name starts with a dot", "'typstyle format-all .' formatted nothing and exited 0 (also C14)"),
  fixed("C15", "format-all reports a file it cannot read", "an unreadable *.typ file below the directory was skipped silently, exit 0 (also C14)"),
  fixed("C06", "keep comments inside a field access that is not laid out as a chain", "'#if a/*c*/.f [..]' lost the comment (also C07: a directive there was lost)"),
  fixed("C19", "do not reorder import items when a comment sits inside an item", "'import \"m\": b as c, a./*c*/d' was sorted although it contains a comment"),
  fixed("C03", "cap the blank lines kept before and after a list separator together", "blank lines before and after a comma were capped separately: up to four survived the first run, the next run reduced them"),
  fixed("C19", "sort import items by their text with blanks normalised", "with reordering on, 'a  as y, a as x' (two blanks) kept its order in the first run and was swapped by the second (also C03)"),
  fixed("C10", "keep the parentheses around a float literal that ends with a dot", "'(1.).f' was printed as '1..f' (also C01)"),
  fixed("C01", "a list item on a later line must not strip the leading space of a content block", "'foo #[ text<newline>- item ] bar' lost the space after '['"),
  fixed("C04", "keep the space between a trailing backslash of a list item or heading and the closing bracket", "'#[- a \\ ]' was printed as '#[- a \\]': the line break became an escaped bracket, the output no longer parsed (also C01 C08)"),
  fixed("C13", "range formatting indents a list item relative to the column of its marker", "an item that does not start its line ('#[- a', '- - b', an indented first line) was re-indented relative to the line's leading blanks: continuation lines and children left the item"),
  fixed("C13", "range formatting keeps the result apart from a word it touches", "'(r) => a' selected out of '#if(r) => a [..]' came back as 'r => a' and fused with the keyword: '#ifr => a'"),
  fixed("C05", "do not reserve memory for as many cells as the 'columns' argument of a table says", "'#table(columns: 9223372036854775807, [a])' panicked with a capacity overflow (reported as a side remark by a seeding sub-agent; the numeric-limits family now finds it)"),
  fixed("C04", "break the line after a line comment that follows the colon of an import", "'#(import \"a.typ\": // c<newline>(a, b))': the comment swallowed the items and the closing parenthesis (also C06; side remark of a sub-agent; production paren_stmt now reaches it)"),
  fixed("C01", "keep the colon of a term item with an empty term apart from the marker", "'/ : desc' was printed as '/: desc', plain text (also C08; side remark of a sub-agent; degenerate block productions now reach it)"),
  fixed("C01", "keep the trailing content blocks of a set rule", "'#set text(red)[abc]' was printed as '#set text(red)': the content argument was dropped (also C02; side remark of a sub-agent; productions set_trailing / set_content now reach it)"),
  fixed("C04", "wrap a closure body that holds a line comment in parentheses, not braces", "'#g(x => v = // c<newline>a)': the body was put between braces, where the line break after the comment ends the statement (also C01: 'return // c<newline>a' lost its value; found by the new closure-body productions)"),
  fixed("C04", "keep math argument separators apart from a backslash or a hashed expression before them", "'$vec(a \\ )$' -> '$vec(a \\)$' (escaped parenthesis), '#a ;' in a 2D row lost its blank (also C01 C09; side remark of a sub-agent; real math calls were missing from the model until then)"),
  fixed("C03", "do not print a blank for the empty parentheses of an import without items", "'{ import \"m.typ\": () }' gained two blanks, the next run removed one"),
  fixed("C01", "keep the comma of a 2D math row apart from a backslash before it", "'$mat(x \\ , y; z)$' -> '$mat(x \\, y; z)$' (follow-up of the separator repair; thorough tier)"),
  fixed("C04", "break the line after a line comment that ends an import without items", "'#(import \"m.typ\": // c<newline>())': the comment swallowed the closing parenthesis (follow-up; thorough tier; also C06)"),
  fixed("C13", "keep a blank between a hashed identifier and the underscore of an attachment", "'$#x _ y$' -> '$#x_y$': the subscript became part of the identifier (found by a single-character damage under C13; also C01 C09)"),
  fixed("C10", "keep the comma added to an unfolded 2D math row apart from a backslash", "'$fn(x, //c<newline>y \\ ; z)$' -> 'y \\, ;': the comma that an unfolded row gets after its last item formed the escape '\\,' behind a backslash (C10 quick tier on the math edge productions; also C06: the escape shifted the census position of later comments, former entry K2-C06)"),
  fixed("C04", "do not overflow when blank_lines_upper_bound is usize::MAX", "with blank_lines_upper_bound = usize::MAX the line breaks between table arguments were dropped and a line comment swallowed what followed (side remark of a sub-agent; blank_lines_upper_bound is now a configuration dimension of every sweep; also C01 C06)"),
  fixed("C04", "keep a float literal that ends with a dot apart from a field access after it", "'#(1. .f)' -> '#(1..f)' (side remark of a sub-agent; productions float_dot_field / float_dot_call; follow-up commits: the layout that keeps comments in place, and - found by the thorough tier of C10 - no blank after a float that is the callee at the bottom of a chain)"),
  fixed("C10", "keep a blank between a hashed float that ends with a dot and the underscore of an attachment", "'$#1. _ x$' -> '$#1._x$' (thorough tier of C10: literal float_dot below m_hash_sub; also C01)"),
  fixed("C04", "keep a backslash at the end of a term apart from the colon", "'/ term \\ : desc' -> '/ term \\: desc': escaped colon, the output no longer parsed (side remark of a sub-agent; production term_bs; also C01 C08)"),
  fixed("C01", "indent the lines of a list item far enough to stay inside the item", "tab_spaces = 0 moved every nested item to column 0; '10. - a' / '- - a' with tab_spaces = 1 put continuation lines into the column of the inner marker (side remark of a sub-agent; indent units 0 and 1 are now part of every sweep, productions list_list, enum_wide_list ...; follow-up commit: the outer item is indented by the width of its marker; also C02 C03 C08)"),
  fixed("C01", "align the body of a list item that starts with another item to the column where it starts", "follow-ups of the nesting repair: '- - a' with tab_spaces = 4 put the lines of the outer item into the inner one; a term item whose description starts with an item ('/ term: - a') and a comment in front of the outer marker moved the column of the inner marker (found by the productions list_list, enum_wide_list, term_list_same ... added for the repair; also C02 C03 C13)"),
  fixed("C13", "range formatting lays the node out from the column where it starts", "'#g[<newline>  - - foo<newline>      bar<newline>]' with the outer item selected: the aligned body of the inner item landed two columns too far left and 'bar' left its item (found by C13 on the new productions)"),
  fixed("C13", "range formatting finds the column of a list marker after any Typst line terminator", "a list item selected after a line that ends with CR / FF / NEL / LS / PS: the marker column was counted from the last line feed (found by the C13 level 'every other line terminator' on the new productions)"),
  fixed("C04", "do not put braces around a closure body that is reproduced verbatim with a line break", "'#g(x => /* @typstyle off */ v =<newline> b)' at a narrow width: braces around a protected body whose line break ends the statement (side remark of a sub-agent; the directive level now pairs the directive with a line break)"),
  fixed("C03", "sort import items by their text without blanks", "with reordering on, 'a . b, a-c' kept its order in the first run and was swapped by the second (side remark of a sub-agent; import item 'a-c' added to the alphabet; also C19)"),
  fixed("C03", "ignore a line of nothing but blanks when measuring the indentation of a block comment", "a block comment with a tab-only line was re-indented by the second run (side remark of a sub-agent; form bc_tab_line)"),
  fixed("C04", "keep a backslash that is the base of an attachment apart from the operator", "'$\\ _b$' -> '$\\_b$': escaped underscore, the subscript was lost (side remark of a sub-agent; productions m_bs_sub / m_bs_sup; also C01 C10)"),
  fixed("C14", "format-all reports a directory that is missing or cannot be listed", "'typstyle format-all nonexistent' exited 0 (side remark of a sub-agent; the CLI model now runs format-all on a missing directory; also C15)"),
  fixed("C15", "format-all skips hidden entries whose names are not valid Unicode", "a hidden file or directory whose name is not valid UTF-8 was formatted by format-all (side remark of a sub-agent)"),
  fixed("C01", "do not break a content block that holds nothing but block comments", "'a#[/*c*/]b' was printed with the comment on its own line: empty content became a blank (also C02 C08)"),
]

json.dump({"_comment": "Known findings of the typstyle verification (DESIGN.md section 7). Rendered from tools/gen_known_findings.py by hand; checks only read this file.",
           "findings": OPEN + FIXED}, open("/verif/known_findings.json", "w"), indent=1, ensure_ascii=False)
print(len(OPEN), "open,", len(FIXED), "fixed")
