#!/usr/bin/env python3
"""Generate /verif/MANIFEST.json from the table below (kept in one place so it stays valid)."""
import json, subprocess

HOOK_COMMITS = []  # filled below from git log --grep
try:
    out = subprocess.run(["git", "-C", "/repo", "log", "--format=%H %s"], capture_output=True, text=True).stdout
    HOOK_COMMITS = [l.split()[0] for l in out.splitlines() if " verif hooks" in l or "typstyle_verif" in l]
except Exception:
    pass

CHECKS = {
 # id: (engine, technique, level text, note, design_ref)
 "C01": ("E1 sweep", "bounded exhaustive enumeration of a source model (spines x trivia deviations x all widths), normal-form oracle",
         "every well-formed text of the bounded source model (context x production spine x trivia deviation at every parser-visible gap) is formatted by the real library at every max_width that can change the output, several indent units (incl. the degenerate units 0 and 1) and the ends of blank_lines_upper_bound (0, usize::MAX; thorough 1 and 3 as well); the normal form N of input and output trees must be equal. Exhaustive within the stated bounds, no sampling.",
         "trusts typst_syntax 0.13.1 as parser; the normal form N (DESIGN.md section 4) as definition of 'layout'; bounds: spine depth (2 quick / 3 thorough, decorated spines to 4-5), <=2 deviations over 34 trivia forms (every Typst line terminator, 10 block-comment and 5 line-comment forms, directives), 5 atom sizes; plus the whitespace-spelling (incl. text blanks at line ends) and prose families; 17 contexts x 265 productions (incl. items that start on the line of another item's marker, floats ending in a dot before a field access, backslashes before separators) (DESIGN.md section 13.2)", "5/C01"),
 "C03": ("E1 sweep", "bounded exhaustive enumeration of the source model, F(F(x)) = F(x) per configuration",
         "same space as C01 plus the degenerate-document and line-end families; for every configuration the second pass must reproduce the first byte for byte", "bounds as C01", "5/C03"),
 "C04": ("E1 sweep", "bounded exhaustive enumeration of the source model, re-parse oracle",
         "same space as C01; every distinct output re-parsed by typst_syntax must be free of syntax errors", "bounds as C01", "5/C04"),
 "C06": ("E1 sweep", "bounded exhaustive enumeration: every comment form at every token gap, comment census oracle",
         "every comment form at every gap the parser accepts (1 comment quick, 2 thorough) x all widths; comment census (kind, text, word position) equal in input and output", "bounds as C01", "5/C06"),
 "C07": ("E1 sweep", "bounded exhaustive enumeration: directive at every gap x payload alphabet, verbatim oracle",
         "both directive forms at every gap of every skeleton whose innermost node is from a payload alphabet of badly formatted nodes x all widths; the protected node's text must follow the directive verbatim", "bounds: spine depth <=2 (quick) / 3 (thorough), payload alphabet", "5/C07"),
 "C08": ("E1 sweep", "bounded exhaustive enumeration of a markup-centred model, per-Markup-node token/whitespace-class oracle",
         "all sequences of <=2/3 inline elements in 21 markup contexts (incl. block elements whose last token meets the closing bracket), two-line and paragraph structures, long lines, every whitespace spelling <=3 over {LF, CR, CRLF, space, tab, LS, FF, VT} and runs of 255..65 537 line feeds, markup skeletons with deviations (incl. every other line terminator and a directive before named/spread arguments) x all widths", "bounds: sequence length, context list", "5/C08"),
 "C09": ("E1 sweep", "bounded exhaustive enumeration of a math-centred model, per-Math-node gap-class oracle",
         "all sequences of <=2/3 math items (incl. real function calls) with none/space/linefeed between them in every math context, every whitespace spelling between math items, plus math skeletons (real calls with named, spread, hashed, 2D arguments) with deviations incl. every other line terminator x all widths", "bounds: sequence length, context list", "5/C09"),
 "C10": ("E1 sweep", "bounded exhaustive enumeration: literal alphabet x every context spine, literal census oracle",
         "53 code literals and 19 markup literals (every Typst line terminator inside inline raw text and strings) in every hole of every context spine (with re-indented continuation-line variants) x all widths; literal token census equal", "bounds: literal alphabet, spine depth", "5/C10"),
 "C11": ("E1 sweep", "bounded exhaustive enumeration of the source model + degenerate documents, hygiene oracle",
         "same space as C01 plus degenerate documents (incl. verbatim text ending the document with every kind of blank, with and without a final line terminator) and the line-end family (11 verbatim carriers x 15 blank characters x LF/CRLF/CR/mixed x 5 remainders); every output non-empty, LF-terminated, no line (split at LF) ending in any char::is_whitespace", "bounds as C01", "5/C11"),
 "C12": ("E1 sweep", "bounded exhaustive enumeration at a no-wrap width x tab_spaces 1..8, proportional-indent oracle",
         "skeletons with line-feed deviations at a width beyond any line x units 1..8 (all pairs via the smallest unit) and all widths x units 3,5,7", "exempt lines computed from the output's own tree", "5/C12"),
 "C13": ("E1 sweep", "bounded exhaustive enumeration: every (start,end) pair on character boundaries of every model source, splice oracle",
         "every model source (and single-character damages; markup and math sources also with every other line terminator of Typst) x every range incl. ranges past the end x 2-3 configurations: no panic, node range, coverage, splice re-parses and keeps N", "reduced model (spine depth <=1 quick)", "5/C13"),
 "C02": ("E1 sweep + E6 compiler world", "bounded exhaustive enumeration of a program sub-model, compile-and-render oracle (real Typst compiler)",
         "every well-formed program of the source model behind a fixed two-line prelude (virtual module binds all atoms) x all widths; input and each distinct output are compiled and rendered in an in-memory world: same pages, same pixels, same info, or same diagnostics",
         "self-contained programs only; embedded fonts; 2 px/pt; bounds as C01 (smaller)", "5/C02"),
 "C05": ("E5 subprocess sweep", "exhaustive enumeration of all strings up to a length bound over structural alphabets + damages + nesting ladders, in isolated worker processes",
         "all strings over 38 structural characters (<=4 quick / <=5 thorough), all token strings over 28/42 tokens, every single-character damage of every canonical model instance, Unicode blanks in structural contexts, numeric literals at every integer-width limit wherever the formatter reads or reprints a number x 24 extreme configurations; 18 nesting ladders up to the parser's own limit; abort/hang detected by the parent process, culprit isolated by bisection",
         "8 MiB stack per worker thread; tab_spaces/max_width at their ends and representative points", "5/C05"),
 "C14": ("E2 stateright CLI exploration", "explicit-state BFS (stateright) over abstract file trees, every transition executes the real CLI binary, reference model oracle",
         "all trees with <=2 (thorough 3) entries over all file kinds (+1 entry over plain kinds), plus single files that differ from their formatted text only at line ends, are blank, or have a syntax error next to things a formatter would change, x every --check invocation shape (ordered file lists <=3 incl. missing path / directory-as-file / symlinks to three kinds of target, files that can be read but not written (immutable attribute), stdin, format-all with 9 directory spellings and on a missing directory, --check before/after the subcommand, -i before the subcommand, both creation orders next to a hidden file) x style options: files and mtimes untouched, no formatted text on stdout, exit status per the statement",
         "runs as root: invalid UTF-8, missing paths, directories and dangling links stand in for unreadable files; the immutable attribute (chattr +i, supported by the tmpfs sandbox) stands in for a file that cannot be written", "6/C14"),
 "C15": ("E2 stateright CLI exploration", "explicit-state BFS (stateright) over abstract file trees, every transition executes the real CLI binary, reference model oracle",
         "same state space as C14 with -i and format-all (writing) actions, BFS to depth 2 (thorough 4) so that second runs and mixed sequences are transitions from non-initial states: written iff eligible/readable/well-formed/different, exact bytes, others untouched incl. mtime, error isolation, exit status",
         "as C14", "6/C15"),
 "C16": ("E2 batch", "exhaustive enumeration of the option space (every column 0..400, every tab-width 0..16, reorder) x corpus x every front-end against the in-process library",
         "corpus of ~95 files (option-sensitive sources, erroneous texts, control characters, last lines around the 1 024-byte stdout buffer and texts beyond the 64 KiB pipe buffer, with/without final line feed) x 1 160 (quick: every column with tab 2, every tab with columns 20 and 80, every pair column 0..17 x tab 0..16) / 13 634 (thorough) configurations x {stdout multi-file, stdin, -i, format-all, format_with_width, format_with_width on its own output at other widths}: byte equality with Typstyle::new(cfg).format_content",
         "library reference linked from the same working tree", "6/C16"),
 "C17": ("E3 baton scheduler + history BFS", "controlled-scheduler exploration of real OS threads at hook points (all schedules up to a preemption bound, CHESS style) + exhaustive call histories in fresh processes",
         "19-call colliding alphabet (same-shape pairs for every per-node predicate, import items that tie under a sort key, a 300x300 pyramid, a narrow 140-level call); every call alone in 3 fresh processes; every history of <=3 calls x 3 thread-assignment modes in a fresh process; DFS over all interleavings of 2-3 real threads at the --cfg typstyle_verif hook points within preemption bound 2 (thorough 3); oracle: result of the same call alone in a fresh process",
         "interleaving at hook granularity; no weak-memory modelling; before exploring, the default schedule is run twice: different decisions are a machinery error, identical decisions with different results are a violation (the subject is not deterministic)", "6/C17"),
 "C18": ("E4 cost explorer", "exhaustive enumeration of cyclic nesting paths over a recursive-construct alphabet, unrolled to a depth ladder; conversion counters from hooks",
         "all sort-compatible cyclic paths of length <=2 (thorough 3) over 81 recursive constructs (every layout with a fallback in both answers of its predicate) x depths 4..64 (256) x 2 positions x 3 innermost variants x 5 widths: every node converted <= 8 times, total <= 8 x nodes; 20 s hang watchdog",
         "counter sees the conversion entry points; the renderer only through the watchdog", "6/C18"),
 "C19": ("E1 sweep", "bounded exhaustive enumeration of import statements, permutation/guard/differential oracle",
         "all import statements over an 11-item alphabet (sequences <=3/4, incl. duplicates, shadowing, nested paths, renames) x 4 module forms x 8 list shapes (incl. empty parentheses) x 4 contexts x trivia between items and at every token boundary inside an item x reorder off/on x all widths", "bounds: item alphabet, sequence length", "5/C19"),
}

def main():
    checks = []
    for cid, (engine, technique, text, note, ref) in sorted(CHECKS.items()):
        checks.append({
            "property_id": cid,
            "quick_cmd": f"./check {cid} quick",
            "thorough_cmd": f"./check {cid} thorough",
            "evidence_file": f"/verif/evidence/{cid}.json",
            "replay_cmd_template": "./check replay {path}",
            "engine": engine.split(" + ")[0],
            "level_claimed": {"category": "model_checking", "text": text, "design_ref": f"DESIGN.md section {ref}"},
            "level_note": note,
            "technique": technique,
        })
    all_ids = [f"C{i:02d}" for i in range(1, 20)]
    na = [{"property_id": c, "reason": "check not built yet (work in progress); see DESIGN.md"} for c in all_ids if c not in CHECKS]
    assert not na, na
    m = {
        "version": 1,
        "setup_cmd": "./setup.sh",
        "hooks": {
            "guard": "--cfg typstyle_verif",
            "enable": "RUSTFLAGS=--cfg typstyle_verif via /verif/harness/.cargo/config.toml (the harness links /repo/crates/typstyle-core by path)",
            "baseline_off_cmd": "cd /repo && cargo nextest run --workspace --no-fail-fast --test-threads 8 --offline",
            "source_commits": HOOK_COMMITS,
            "add_only": True,
        },
        "engines": [
            {"name": "E1 sweep", "path": "/verif/harness/tyv-model/src/sweep.rs", "serves_properties": [c for c in sorted(CHECKS) if CHECKS[c][0].startswith("E1")],
             "kind_free_text": "hand-rolled parallel exhaustive enumerator over the bounded Typst source model (contexts x production spines x trivia deviations at parser-visible gaps x all widths); every case is an execution of the real typstyle-core"},
            {"name": "E2 stateright CLI exploration", "path": "/verif/harness/tyv-run/src/cli.rs", "serves_properties": ["C14", "C15", "C16"],
             "kind_free_text": "stateright 0.31 BFS over abstract file trees; next_state materialises the tree, runs the real typstyle binary and compares with a reference model"},
            {"name": "E3 baton scheduler", "path": "/verif/harness/tyv-run/src/c17.rs", "serves_properties": ["C17"],
             "kind_free_text": "deterministic scheduler over real OS threads at cfg-guarded hook points; DFS over schedules with iterative preemption bounding; histories in fresh processes"},
            {"name": "E4 cost explorer", "path": "/verif/harness/tyv-run/src/c18.rs", "serves_properties": ["C18"],
             "kind_free_text": "nesting-path enumerator reading per-node conversion counters from the hooks"},
            {"name": "E5 subprocess sweep", "path": "/verif/harness/tyv-run/src/c05.rs", "serves_properties": ["C05"],
             "kind_free_text": "exhaustive string families in worker processes; parent detects abort/hang and bisects to the culprit"},
            {"name": "E6 compiler world", "path": "/verif/harness/tyv-world/src/lib.rs", "serves_properties": ["C02"],
             "kind_free_text": "minimal in-memory typst::World (typst 0.13.1, embedded fonts): compile + render + hash"},
        ],
        "checks": checks,
        "not_applicable": na,
        "notes": "All checks are bounded exhaustive explorations executed on the real code (model checking family). See DESIGN.md.",
    }
    json.dump(m, open("/verif/MANIFEST.json", "w"), indent=1)
    print("wrote MANIFEST.json with", len(checks), "checks")

main()
