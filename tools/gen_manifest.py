#!/usr/bin/env python3
"""Generate /verif/MANIFEST.json from the table below (kept in one place so it stays valid)."""
import json, subprocess

HOOK_COMMITS = []  # filled below from git log --grep
try:
    out = subprocess.run(["git", "-C", "/repo", "log", "--format=%H %s"], capture_output=True, text=True).stdout
    HOOK_COMMITS = [l.split()[0] for l in out.splitlines() if " verif hooks" in l or "typstyle_verif" in l]
except Exception:
    pass

CHECKS = {
 # id: (engine, technique, level text, note, design_ref)
 "C01": ("E1 sweep", "bounded exhaustive enumeration of a source model (spines x trivia deviations x all widths), normal-form oracle",
         "every well-formed text of the bounded source model (context x production spine x trivia deviation at every parser-visible gap) is formatted by the real library at every max_width that can change the output and several indent units; the normal form N of input and output trees must be equal. Exhaustive within the stated bounds, no sampling.",
         "trusts typst_syntax 0.13.1 as parser; the normal form N (DESIGN.md section 4) as definition of 'layout'; bounds: spine depth, <=2 deviations, atom sizes", "5/C01"),
 "C03": ("E1 sweep", "bounded exhaustive enumeration of the source model, F(F(x)) = F(x) per configuration",
         "same space as C01; for every configuration the second pass must reproduce the first byte for byte", "bounds as C01", "5/C03"),
 "C04": ("E1 sweep", "bounded exhaustive enumeration of the source model, re-parse oracle",
         "same space as C01; every distinct output re-parsed by typst_syntax must be free of syntax errors", "bounds as C01", "5/C04"),
 "C06": ("E1 sweep", "bounded exhaustive enumeration: every comment form at every token gap, comment census oracle",
         "every comment form at every gap the parser accepts (1 comment quick, 2 thorough) x all widths; comment census (kind, text, word position) equal in input and output", "bounds as C01", "5/C06"),
 "C07": ("E1 sweep", "bounded exhaustive enumeration: directive at every gap x payload alphabet, verbatim oracle",
         "both directive forms at every gap of every skeleton whose innermost node is from a payload alphabet of badly formatted nodes x all widths; the protected node's text must follow the directive verbatim", "bounds: spine depth <=2 (quick) / 3 (thorough), payload alphabet", "5/C07"),
 "C08": ("E1 sweep", "bounded exhaustive enumeration of a markup-centred model, per-Markup-node token/whitespace-class oracle",
         "all sequences of <=2/3 inline elements in every markup context, two-line and paragraph structures, long lines, plus markup skeletons with deviations x all widths", "bounds: sequence length, context list", "5/C08"),
 "C09": ("E1 sweep", "bounded exhaustive enumeration of a math-centred model, per-Math-node gap-class oracle",
         "all sequences of <=2/3 math items with none/space/linefeed between them in every math context, plus math skeletons with deviations x all widths", "bounds: sequence length, context list", "5/C09"),
 "C10": ("E1 sweep", "bounded exhaustive enumeration: literal alphabet x every context spine, literal census oracle",
         "44 code literals and 14 markup literals in every hole of every context spine (with re-indented continuation-line variants) x all widths; literal token census equal", "bounds: literal alphabet, spine depth", "5/C10"),
 "C11": ("E1 sweep", "bounded exhaustive enumeration of the source model + degenerate documents, hygiene oracle",
         "same space as C01 plus degenerate documents; every output non-empty, LF-terminated, no line ending in a blank", "bounds as C01", "5/C11"),
 "C12": ("E1 sweep", "bounded exhaustive enumeration at a no-wrap width x tab_spaces 1..8, proportional-indent oracle",
         "skeletons with line-feed deviations at a width beyond any line x units 1..8 (all pairs via the smallest unit) and all widths x units 3,5,7", "exempt lines computed from the output's own tree", "5/C12"),
 "C13": ("E1 sweep", "bounded exhaustive enumeration: every (start,end) pair on character boundaries of every model source, splice oracle",
         "every model source (and single-character damages) x every range incl. ranges past the end x 2-3 configurations: no panic, node range, coverage, splice re-parses and keeps N", "reduced model (spine depth <=1 quick)", "5/C13"),
 "C19": ("E1 sweep", "bounded exhaustive enumeration of import statements, permutation/guard/differential oracle",
         "all import statements over the item alphabet (sequences <=3/4) x shapes x contexts x trivia x reorder off/on x all widths", "bounds: item alphabet, sequence length", "5/C19"),
}

def main():
    checks = []
    for cid, (engine, technique, text, note, ref) in sorted(CHECKS.items()):
        checks.append({
            "property_id": cid,
            "quick_cmd": f"./check {cid} quick",
            "thorough_cmd": f"./check {cid} thorough",
            "evidence_file": f"/verif/evidence/{cid}.json",
            "replay_cmd_template": "./check replay {path}",
            "engine": engine,
            "level_claimed": {"category": "model_checking", "text": text, "design_ref": f"DESIGN.md section {ref}"},
            "level_note": note,
            "technique": technique,
        })
    all_ids = [f"C{i:02d}" for i in range(1, 20)]
    na = [{"property_id": c, "reason": "check not built yet (work in progress); see DESIGN.md"} for c in all_ids if c not in CHECKS]
    m = {
        "version": 1,
        "setup_cmd": "./setup.sh",
        "hooks": {
            "guard": "--cfg typstyle_verif",
            "enable": "RUSTFLAGS=--cfg typstyle_verif via /verif/harness/.cargo/config.toml (the harness links /repo/crates/typstyle-core by path)",
            "baseline_off_cmd": "cd /repo && cargo nextest run --workspace --no-fail-fast --test-threads 8 --offline",
            "source_commits": HOOK_COMMITS,
            "add_only": True,
        },
        "engines": [
            {"name": "E1 sweep", "path": "/verif/harness/tyv-model/src/sweep.rs", "serves_properties": sorted(CHECKS.keys()),
             "kind_free_text": "hand-rolled parallel exhaustive enumerator over the bounded Typst source model; every case is an execution of the real typstyle-core"},
        ],
        "checks": checks,
        "not_applicable": na,
        "notes": "All checks are bounded exhaustive explorations executed on the real code (model checking family). See DESIGN.md.",
    }
    json.dump(m, open("/verif/MANIFEST.json", "w"), indent=1)
    print("wrote MANIFEST.json with", len(checks), "checks")

main()
