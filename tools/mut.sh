#!/bin/bash
# usage: mut.sh <patch> <tier> <checks...> : apply the patch to /tmp/wt-mut (fresh at /repo HEAD) and run the checks there
P=$1; shift
WT=/tmp/wt-mut
if [ ! -d $WT ]; then git -C /repo worktree add -q --detach $WT HEAD || exit 2; fi
git -C $WT checkout -q --detach $(git -C /repo rev-parse HEAD) 2>/dev/null
git -C $WT checkout -q HEAD -- . ; git -C $WT clean -fdq crates
git -C $WT apply $P || { echo "PATCH DOES NOT APPLY"; exit 2; }
/verif/tools/mutant_check.sh $WT "$@"
for c in "${@:2}"; do grep -h '^VIOLATION' -A1 /tmp/mh-wt-mut/out/$c.log | grep -v '^VIOLATION\|^--' | sed 's/ cases=.*input=/ input=/' | cut -c1-260 | head -4; done
git -C $WT checkout -q HEAD -- . ; git -C $WT clean -fdq crates
