//! The interface between the engines (which know nothing about typstyle) and the
//! implementation under test (bound in tyv-run).

use std::ops::Range;

#[derive(Clone, Debug, PartialEq, Eq, Hash, serde::Serialize, serde::Deserialize)]
pub struct Cfg {
    pub max_width: usize,
    pub tab_spaces: usize,
    pub reorder: bool,
    /// `blank_lines_upper_bound` (library-only option; the CLI always uses the default 2)
    #[serde(default = "default_blank")]
    pub blank: usize,
}

fn default_blank() -> usize {
    2
}

impl Default for Cfg {
    fn default() -> Self {
        Cfg { max_width: 80, tab_spaces: 2, reorder: false, blank: 2 }
    }
}

impl Cfg {
    pub fn w(max_width: usize) -> Cfg {
        Cfg { max_width, ..Default::default() }
    }
    pub fn wt(max_width: usize, tab_spaces: usize) -> Cfg {
        Cfg { max_width, tab_spaces, reorder: false, blank: 2 }
    }
    pub fn show(&self) -> String {
        if self.blank == 2 {
            format!("w={} tab={} reorder={}", self.max_width, self.tab_spaces, self.reorder)
        } else {
            format!("w={} tab={} reorder={} blank={}", self.max_width, self.tab_spaces, self.reorder, self.blank)
        }
    }
}

/// Refusal of the formatter (the input has syntax errors according to the subject).
#[derive(Debug, Clone, PartialEq, Eq)]
pub struct Refused;

pub trait Subject: Sync + Send {
    /// `Typstyle::new(cfg).format_source(&Source::new(fixed_id, text))` - what `format_content` does
    /// after `Source::detached`, minus typst_syntax's global FileId interner write lock.
    fn format(&self, text: &str, cfg: &Cfg) -> Result<String, Refused>;
    /// `Typstyle::new(cfg).format_content(text)` itself.
    fn format_content(&self, text: &str, cfg: &Cfg) -> Result<String, Refused>;
    /// `typstyle_core::format_with_width(text, width)`
    fn format_with_width(&self, text: &str, width: usize) -> String;
    /// `Typstyle::new(cfg).format_source_range(Source::detached(text), range)`
    fn format_range(&self, text: &str, range: Range<usize>, cfg: &Cfg) -> Result<(Range<usize>, String), Refused>;
    /// The same call for many ranges over one parsed `Source`; each result is guarded separately
    /// (Err(String) = panic message).
    #[allow(clippy::type_complexity)]
    fn format_ranges(&self, text: &str, ranges: &[Range<usize>], cfg: &Cfg) -> Vec<Result<Result<(Range<usize>, String), Refused>, String>>;
}

/// Run `f`, turning a panic into Err(message). The default panic hook is silenced by the binary.
pub fn guarded<T>(f: impl FnOnce() -> T) -> Result<T, String> {
    match std::panic::catch_unwind(std::panic::AssertUnwindSafe(f)) {
        Ok(v) => Ok(v),
        Err(e) => {
            let msg = if let Some(s) = e.downcast_ref::<&str>() {
                s.to_string()
            } else if let Some(s) = e.downcast_ref::<String>() {
                s.clone()
            } else {
                "panic".to_string()
            };
            Err(msg)
        }
    }
}
