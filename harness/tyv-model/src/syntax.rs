//! Shared observation machinery on top of `typst_syntax` (DESIGN.md §4).
//! Nothing here knows about typstyle.

use typst_syntax::{LinkedNode, SyntaxKind as K, SyntaxNode};

/// Parse as a Typst document. Uses `typst_syntax::parse` directly (the same parser that
/// `Source::detached` runs) and avoids the global FileId interner lock of `Source`.
pub fn parse(text: &str) -> SyntaxNode {
    typst_syntax::parse(text)
}

pub fn wellformed(text: &str) -> bool {
    !parse(text).erroneous()
}

pub fn is_comment(k: K) -> bool {
    matches!(k, K::LineComment | K::BlockComment)
}

/// Comment-like for the purposes of the oracles: a shebang line behaves like a line comment.
pub fn is_comment_like(k: K) -> bool {
    matches!(k, K::LineComment | K::BlockComment | K::Shebang)
}

/// Typst's notion of a newline character (typst_syntax::is_newline).
pub fn is_nl(c: char) -> bool {
    matches!(
        c,
        '\n' | '\x0B' | '\x0C' | '\r' | '\u{85}' | '\u{2028}' | '\u{2029}'
    )
}

/// Number of line breaks in `t` under Typst's rules (CRLF counts once).
pub fn count_nl(t: &str) -> usize {
    let mut n = 0;
    let mut it = t.chars().peekable();
    while let Some(c) = it.next() {
        if is_nl(c) {
            if c == '\r' && it.peek() == Some(&'\n') {
                it.next();
            }
            n += 1;
        }
    }
    n
}

pub fn has_nl(t: &str) -> bool {
    t.chars().any(is_nl)
}

/// Split on Typst newlines (CRLF once).
pub fn split_lines(t: &str) -> Vec<&str> {
    let mut res = vec![];
    let mut start = 0;
    let b = t.as_bytes();
    let mut it = t.char_indices().peekable();
    while let Some((i, c)) = it.next() {
        if is_nl(c) {
            res.push(&t[start..i]);
            let mut next = i + c.len_utf8();
            if c == '\r' && b.get(next) == Some(&b'\n') {
                it.next();
                next += 1;
            }
            start = next;
        }
    }
    res.push(&t[start..]);
    res
}

pub fn leaves<'a>(n: &'a SyntaxNode, out: &mut Vec<&'a SyntaxNode>) {
    if n.children().len() == 0 {
        out.push(n);
    } else {
        for c in n.children() {
            leaves(c, out);
        }
    }
}

pub fn leaf_list(n: &SyntaxNode) -> Vec<&SyntaxNode> {
    let mut v = vec![];
    leaves(n, &mut v);
    v
}

/// Word-like leaves: identifiers, literals, keywords, text, math identifiers ...
pub fn is_word(k: K) -> bool {
    k.is_keyword()
        || matches!(
            k,
            K::Ident
                | K::Int
                | K::Float
                | K::Numeric
                | K::Str
                | K::Bool
                | K::None
                | K::Auto
                | K::Text
                | K::MathIdent
                | K::MathText
                | K::Label
                | K::RefMarker
                | K::Link
                | K::Escape
                | K::Shorthand
                | K::SmartQuote
                | K::MathShorthand
                | K::RawLang
                | K::Raw
        )
}

#[derive(Clone, Copy, PartialEq, Eq, Debug)]
pub enum Mode {
    Markup,
    Code,
    Math,
}

impl Mode {
    pub fn tag(self) -> &'static str {
        match self {
            Mode::Markup => "markup",
            Mode::Code => "code",
            Mode::Math => "math",
        }
    }
}

/// Lexical mode that the *children* of a node of kind `k` are in, given the mode of the node.
pub fn child_mode(k: K, mode: Mode) -> Mode {
    match k {
        K::Markup | K::ContentBlock | K::Strong | K::Emph | K::Heading | K::ListItem | K::EnumItem | K::TermItem => {
            Mode::Markup
        }
        K::Math | K::Equation | K::MathDelimited | K::MathAttach | K::MathFrac | K::MathRoot | K::MathPrimes => {
            Mode::Math
        }
        K::CodeBlock | K::Code => Mode::Code,
        k if is_code_only(k) => Mode::Code,
        _ => mode,
    }
}

/// Node kinds that only exist in code (also when embedded in markup or math through `#`).
pub fn is_code_only(k: K) -> bool {
    matches!(
        k,
        K::Dict
            | K::Parenthesized
            | K::CodeBlock
            | K::Closure
            | K::Params
            | K::Unary
            | K::Binary
            | K::LetBinding
            | K::SetRule
            | K::ShowRule
            | K::Conditional
            | K::WhileLoop
            | K::ForLoop
            | K::ModuleImport
            | K::ImportItems
            | K::ModuleInclude
            | K::Contextual
            | K::DestructAssignment
            | K::Destructuring
            | K::Keyed
            | K::FuncReturn
    )
}

/// A gap = boundary between two adjacent non-trivia leaves, or a Space/Parbreak leaf.
#[derive(Clone, Debug)]
pub struct Gap {
    /// byte range of the trivia currently in the gap (empty range for a tight boundary)
    pub range: std::ops::Range<usize>,
    /// kind of the leaf left of the gap (None at document start)
    pub left: Option<K>,
    pub right: Option<K>,
    /// kind of the lowest common ancestor of the two neighbouring leaves, and of its parent
    pub parent: K,
    pub grandparent: Option<K>,
    pub mode: Mode,
}

/// Enumerate all gaps of a text as the parser sees them: one gap between every two
/// consecutive non-whitespace, non-empty leaves (plus document start and end); whitespace leaves
/// between them are the gap's current trivia.
pub fn gaps(root: &SyntaxNode, text_len: usize) -> Vec<Gap> {
    struct L {
        kind: K,
        range: std::ops::Range<usize>,
        path: Vec<(usize, K)>,
    }
    fn walk(n: &LinkedNode, path: &mut Vec<(usize, K)>, id: &mut usize, out: &mut Vec<L>) {
        let my = *id;
        *id += 1;
        if n.children().len() == 0 {
            if !n.range().is_empty() {
                out.push(L { kind: n.kind(), range: n.range(), path: path.clone() });
            }
            return;
        }
        path.push((my, n.kind()));
        for c in n.children() {
            walk(&c, path, id, out);
        }
        path.pop();
    }
    let mut ls = vec![];
    let mut id = 0;
    walk(&LinkedNode::new(root), &mut vec![], &mut id, &mut ls);
    let is_ws = |k: K| matches!(k, K::Space | K::Parbreak);
    let ctx = |a: Option<&L>, b: Option<&L>| -> (K, Option<K>, Mode) {
        let chain: Vec<K> = match (a, b) {
            (Some(a), Some(b)) => {
                let mut i = 0;
                while i < a.path.len() && i < b.path.len() && a.path[i].0 == b.path[i].0 {
                    i += 1;
                }
                a.path[..i].iter().map(|x| x.1).collect()
            }
            (Some(x), None) | (None, Some(x)) => x.path[..1.min(x.path.len())].iter().map(|x| x.1).collect(),
            (None, None) => vec![],
        };
        let parent = chain.last().copied().unwrap_or(K::Markup);
        let gp = if chain.len() >= 2 { Some(chain[chain.len() - 2]) } else { None };
        let mut m = Mode::Markup;
        for &k in &chain {
            m = child_mode(k, m);
        }
        (parent, gp, m)
    };
    let mut res = vec![];
    let mut last: Option<usize> = None;
    let mut pending: Option<std::ops::Range<usize>> = None;
    for (j, l) in ls.iter().enumerate() {
        if is_ws(l.kind) {
            pending = Some(match pending {
                Some(p) => p.start..l.range.end,
                None => l.range.clone(),
            });
            continue;
        }
        let a = last.map(|i| &ls[i]);
        let (parent, grandparent, mode) = ctx(a, Some(l));
        res.push(Gap {
            range: pending.take().unwrap_or(l.range.start..l.range.start),
            left: a.map(|x| x.kind),
            right: Some(l.kind),
            parent,
            grandparent,
            mode,
        });
        last = Some(j);
    }
    let a = last.map(|i| &ls[i]);
    let end = text_len;
    let (parent, grandparent, mode) = ctx(a, None);
    res.push(Gap {
        range: pending.take().unwrap_or(end..end),
        left: a.map(|x| x.kind),
        right: None,
        parent,
        grandparent,
        mode,
    });
    res
}

/// First syntax error of a tree: (message, byte offset)
pub fn first_error(root: &SyntaxNode) -> Option<(String, usize)> {
    fn walk(n: &LinkedNode) -> Option<(String, usize)> {
        if n.kind() == K::Error {
            let msg = n.get().errors().first().map(|e| e.message.to_string()).unwrap_or_default();
            return Some((msg, n.offset()));
        }
        for c in n.children() {
            if let Some(r) = walk(&c) {
                return Some(r);
            }
        }
        // errors can also be attached to non-Error nodes (expected ...): report generic
        None
    }
    if !root.erroneous() {
        return None;
    }
    walk(&LinkedNode::new(root)).or_else(|| {
        let e = root.errors();
        e.first().map(|e| (e.message.to_string(), 0))
    })
}

pub fn esc(s: &str) -> String {
    let mut o = String::new();
    for c in s.chars() {
        match c {
            '\n' => o.push('⏎'),
            '\r' => o.push_str("\\r"),
            '\t' => o.push_str("\\t"),
            '\u{2028}' => o.push_str("\\u{2028}"),
            '\u{2029}' => o.push_str("\\u{2029}"),
            '\u{85}' => o.push_str("\\u{85}"),
            '\x0B' => o.push_str("\\x0B"),
            '\x0C' => o.push_str("\\x0C"),
            c => o.push(c),
        }
    }
    o
}
