//! E1: bounded exhaustive source sweep (DESIGN.md §2, §3).
//!
//! Work unit = one skeleton: its canonical instance (0 deviations), then every single deviation
//! (gap x form), then every pair of deviations. Each candidate that parses error-free is formatted
//! under every configuration of the policy and handed to the property's oracle. A failing candidate
//! is *minimal* when no candidate obtained by dropping one of its deviations fails the same clause.

use std::collections::{HashMap, HashSet};
use std::sync::atomic::{AtomicBool, AtomicUsize, Ordering};
use std::sync::Mutex;
use std::time::{Duration, Instant};

use serde_json::{json, Value};
use typst_syntax::SyntaxNode;

use crate::model::{self, Form, Model, Skeleton};
use crate::report::{Coverage, Failure};
use crate::subject::{guarded, Cfg, Subject};
use crate::syntax;

#[derive(Clone, Debug)]
pub struct Fail {
    pub clause: String,
    pub detail: String,
}

impl Fail {
    pub fn new(clause: &str, detail: impl Into<String>) -> Fail {
        Fail { clause: clause.to_string(), detail: detail.into() }
    }
}

pub type Checker<'a> = Box<dyn FnMut(&Cfg, &str) -> Vec<Fail> + 'a>;

pub trait Oracle: Sync {
    fn property(&self) -> &'static str;
    /// Evaluate once per configuration (true) or once per distinct output text (false).
    fn per_config(&self) -> bool {
        false
    }
    /// Also evaluate candidates that have syntax errors (C13's refusal / no-panic part). For those the
    /// engine does not format; it calls the checker once per configuration with an empty output.
    fn wants_illformed(&self) -> bool {
        false
    }
    /// Is this well-formed input inside the oracle's domain? (e.g. C02 wants compilable programs)
    fn admits(&self, _input: &str, _src: &SyntaxNode) -> bool {
        true
    }
    /// Per-input checker; owns whatever is precomputed from the input.
    fn for_input<'a>(&'a self, input: &'a str, src: &'a SyntaxNode, subject: &'a dyn Subject) -> Checker<'a>;
    /// Non-trivial rule for evidence.
    fn rule(&self) -> String;
}

#[derive(Clone, Debug)]
pub enum Widths {
    /// every width in [0, W*(x)+3] (capped) plus the fixed extras
    All { cap: usize },
    /// a single width far beyond any possible line
    Huge,
    /// C12: the no-wrap width for `tabs_full`, then every width for `tabs_sparse`
    HugeThenAll { cap: usize },
    Fixed(Vec<usize>),
}

#[derive(Clone, Debug)]
pub struct CfgPolicy {
    pub widths: Widths,
    /// tab sizes evaluated at every width of `widths`
    pub tabs_full: Vec<usize>,
    /// tab sizes evaluated at a sparse width set
    pub tabs_sparse: Vec<usize>,
    pub reorder: Vec<bool>,
    /// values of `blank_lines_upper_bound` other than the default 2, evaluated at `BLANK_WIDTHS`
    /// with the first full tab size
    pub blanks: Vec<usize>,
    /// degenerate indent units (0, 1), evaluated at `EDGE_TAB_WIDTHS`
    pub tabs_edge: Vec<usize>,
}

pub const EXTRA_WIDTHS: [usize; 7] = [80, 100, 120, 121, 200, 10_000, usize::MAX / 2];
const SPARSE_WIDTHS: [usize; 10] = [0, 1, 7, 14, 21, 28, 40, 60, 80, 10_000];
const BLANK_WIDTHS: [usize; 2] = [0, 10_000];
const EDGE_TAB_WIDTHS: [usize; 2] = [0, 10_000];

impl CfgPolicy {
    pub fn standard(cap: usize, tabs_full: &[usize], tabs_sparse: &[usize]) -> CfgPolicy {
        CfgPolicy { widths: Widths::All { cap }, tabs_full: tabs_full.to_vec(), tabs_sparse: tabs_sparse.to_vec(), reorder: vec![false], blanks: vec![], tabs_edge: vec![] }
    }

    /// The configuration set for one input. `w_star` per DESIGN §3.
    pub fn configs(&self, subject: &dyn Subject, input: &str) -> Vec<Cfg> {
        let mut res = vec![];
        for &reorder in &self.reorder {
            match &self.widths {
                Widths::All { cap } => {
                    let inf = guarded(|| subject.format(input, &Cfg { max_width: 1_000_000, tab_spaces: self.tabs_full[0], reorder, blank: 2 }));
                    let longest = match &inf {
                        Ok(Ok(o)) => o.split('\n').map(|l| l.chars().count()).max().unwrap_or(0),
                        _ => input.len(),
                    };
                    let w_star = longest.max((input.len() as f64 / 0.6).ceil() as usize + 2);
                    let top = (w_star + 3).min(*cap);
                    for &t in &self.tabs_full {
                        for w in 0..=top {
                            res.push(Cfg { max_width: w, tab_spaces: t, reorder, blank: 2 });
                        }
                        for &w in EXTRA_WIDTHS.iter() {
                            if w > top {
                                res.push(Cfg { max_width: w, tab_spaces: t, reorder, blank: 2 });
                            }
                        }
                    }
                    for &t in &self.tabs_sparse {
                        for &w in SPARSE_WIDTHS.iter() {
                            res.push(Cfg { max_width: w, tab_spaces: t, reorder, blank: 2 });
                        }
                    }
                }
                Widths::Huge => {
                    let w = 10_000 * (1 + input.len());
                    for &t in self.tabs_full.iter().chain(self.tabs_sparse.iter()) {
                        res.push(Cfg { max_width: w, tab_spaces: t, reorder, blank: 2 });
                    }
                }
                Widths::HugeThenAll { cap } => {
                    let w = 10_000 * (1 + input.len());
                    for &t in self.tabs_full.iter() {
                        res.push(Cfg { max_width: w, tab_spaces: t, reorder, blank: 2 });
                    }
                    let top = ((input.len() as f64 / 0.6).ceil() as usize + 5).min(*cap);
                    for &t in self.tabs_sparse.iter() {
                        for w in 0..=top {
                            res.push(Cfg { max_width: w, tab_spaces: t, reorder, blank: 2 });
                        }
                    }
                }
                Widths::Fixed(ws) => {
                    for &t in self.tabs_full.iter().chain(self.tabs_sparse.iter()) {
                        for &w in ws {
                            res.push(Cfg { max_width: w, tab_spaces: t, reorder, blank: 2 });
                        }
                    }
                }
            }
            for &blank in &self.blanks {
                for &w in BLANK_WIDTHS.iter() {
                    res.push(Cfg { max_width: w, tab_spaces: self.tabs_full[0], reorder, blank });
                }
            }
            for &t in &self.tabs_edge {
                for &w in EDGE_TAB_WIDTHS.iter() {
                    res.push(Cfg { max_width: w, tab_spaces: t, reorder, blank: 2 });
                }
            }
        }
        res
    }
}

#[derive(Clone, Debug)]
pub struct Level {
    pub name: String,
    pub skeletons: Vec<Skeleton>,
    /// forms for single deviations (empty: canonical instances only)
    pub dev1: Vec<Form>,
    /// forms for pairs of deviations (empty: no pairs)
    pub dev2: Vec<Form>,
}

/// Extra free-standing inputs (not derived from skeletons): literal families, degenerate docs ...
#[derive(Clone, Debug)]
pub struct ExtraLevel {
    pub name: String,
    /// (derivation label, text)
    pub inputs: Vec<(String, String)>,
}

pub struct SweepSpec<'a> {
    pub model: &'a Model,
    pub levels: Vec<Level>,
    pub extra: Vec<ExtraLevel>,
    pub policy: CfgPolicy,
    pub wall_cap: Duration,
    pub threads: usize,
    pub seed: u64,
}

#[derive(Default)]
struct Acc {
    texts: HashSet<u64>,
    nontrivial: HashSet<u64>,
    format_calls: u64,
    oracle_evals: u64,
    inputs: u64,
    rejected: u64,
    not_admitted: u64,
    /// failing cases aggregated by signature: smallest input as representative + count
    failures: HashMap<String, Failure>,
    explained: u64,
    samples: Vec<(u64, Value)>,
    max_distinct_outputs: u32,
    sum_distinct_outputs: u64,
    sum_cfgs: u64,
}

pub fn h64(s: &str, seed: u64) -> u64 {
    let mut h: u64 = 0xcbf29ce484222325 ^ seed.wrapping_mul(0x9E3779B97F4A7C15);
    for b in s.as_bytes() {
        h ^= *b as u64;
        h = h.wrapping_mul(0x100000001b3);
    }
    h ^ (h >> 29)
}

/// Verdict for one input: first failure per clause.
pub struct Verdict {
    pub fails: Vec<(Fail, Cfg)>,
    pub differs: bool,
}

impl Verdict {
    fn has(&self, clause: &str) -> bool {
        self.fails.iter().any(|(f, _)| f.clause == clause)
    }
}

/// Format `input` under all configs, evaluate the oracle. The heart of every E1 check, also used by replay.
pub fn eval_input(
    subject: &dyn Subject,
    oracle: &dyn Oracle,
    input: &str,
    src: &SyntaxNode,
    cfgs: &[Cfg],
    mut on_text: impl FnMut(&str),
    counters: &mut (u64, u64, u32),
) -> Verdict {
    let mut checker = oracle.for_input(input, src, subject);
    let mut fails: Vec<(Fail, Cfg)> = vec![];
    let mut seen: HashMap<String, ()> = HashMap::new();
    let mut differs = false;
    let push = |fails: &mut Vec<(Fail, Cfg)>, f: Fail, c: &Cfg| {
        if !fails.iter().any(|(g, _)| g.clause == f.clause) {
            fails.push((f, c.clone()));
        }
    };
    if src.erroneous() {
        for cfg in cfgs {
            counters.1 += 1;
            match guarded(|| checker(cfg, "")) {
                Ok(fs) => {
                    for f in fs {
                        push(&mut fails, f, cfg);
                    }
                }
                Err(msg) => push(&mut fails, Fail::new("no-output:panic", format!("panic: {msg}")), cfg),
            }
        }
        return Verdict { fails, differs: false };
    }
    for cfg in cfgs {
        counters.0 += 1;
        let r = guarded(|| subject.format(input, cfg));
        let out = match r {
            Err(msg) => {
                push(&mut fails, Fail::new("no-output:panic", format!("panic: {msg}")), cfg);
                continue;
            }
            Ok(Err(_)) => {
                push(&mut fails, Fail::new("no-output:refused", "well-formed input refused"), cfg);
                continue;
            }
            Ok(Ok(o)) => o,
        };
        if out != input {
            differs = true;
        }
        let fresh = !seen.contains_key(&out);
        if fresh {
            on_text(&out);
            seen.insert(out.clone(), ());
        }
        if fresh || oracle.per_config() {
            counters.1 += 1;
            let r = guarded(|| checker(cfg, &out));
            match r {
                Ok(fs) => {
                    for f in fs {
                        push(&mut fails, f, cfg);
                    }
                }
                Err(msg) => push(&mut fails, Fail::new("no-output:panic", format!("panic while re-formatting: {msg}")), cfg),
            }
        }
    }
    counters.2 = seen.len() as u32;
    Verdict { fails, differs }
}

pub struct SweepResult {
    pub coverage: Coverage,
    pub failures: Vec<Failure>,
}

pub fn run(spec: &SweepSpec, subject: &dyn Subject, oracle: &dyn Oracle) -> SweepResult {
    let start = Instant::now();
    let stop = AtomicBool::new(false);
    let total = Mutex::new(Acc::default());
    let mut completed = vec![];
    let mut incomplete = None;
    let mut per_level: Vec<Value> = vec![];
    let property = oracle.property();

    // ---- extra levels (free-standing families) first, smallest first: a wall cap then cuts the big skeleton levels
    let mut extras: Vec<&ExtraLevel> = spec.extra.iter().collect();
    extras.sort_by_key(|l| l.inputs.len());
    for level in extras {
        if stop.load(Ordering::Relaxed) {
            incomplete.get_or_insert(level.name.clone());
            break;
        }
        let next = AtomicUsize::new(0);
        let lvl_start = Instant::now();
        std::thread::scope(|sc| {
            for _ in 0..spec.threads {
                sc.spawn(|| {
                    let mut acc = Acc::default();
                    loop {
                        if start.elapsed() > spec.wall_cap {
                            stop.store(true, Ordering::Relaxed);
                        }
                        if stop.load(Ordering::Relaxed) {
                            break;
                        }
                        let i = next.fetch_add(1, Ordering::Relaxed);
                        if i >= level.inputs.len() {
                            break;
                        }
                        let (label, text) = &level.inputs[i];
                        let src = syntax::parse(text);
                        if src.erroneous() && !oracle.wants_illformed() {
                            acc.rejected += 1;
                            continue;
                        }
                        if !oracle.admits(text, &src) {
                            acc.not_admitted += 1;
                            continue;
                        }
                        let v = eval_one(spec, subject, oracle, text, &src, &mut acc, label, true);
                        for (f, cfg) in v.fails {
                            add_failure(&mut acc.failures, Failure {
                                property: property.into(),
                                signature: format!("{}|{}|extra={}", property, f.clause, label),
                                clause: f.clause,
                                input: text.clone(),
                                cfg: Some(cfg),
                                detail: f.detail,
                                derivation: format!("{}:{}", level.name, label),
                                extra: Value::Null,
                                count: 1,
                            });
                        }
                    }
                    merge(&mut total.lock().unwrap(), acc, 8);
                });
            }
        });
        let done = !stop.load(Ordering::Relaxed);
        per_level.push(json!({"level": level.name, "inputs": level.inputs.len(), "completed": done, "wall_s": lvl_start.elapsed().as_secs_f64()}));
        if done {
            completed.push(level.name.clone());
        } else {
            incomplete = Some(level.name.clone());
            break;
        }
    }

    // ---- skeleton levels
    for level in &spec.levels {
        if stop.load(Ordering::Relaxed) {
            incomplete.get_or_insert(level.name.clone());
            break;
        }
        let next = AtomicUsize::new(0);
        let lvl_start = Instant::now();
        let lvl_inputs = AtomicUsize::new(0);
        std::thread::scope(|sc| {
            for _ in 0..spec.threads {
                sc.spawn(|| {
                    let mut acc = Acc::default();
                    loop {
                        if start.elapsed() > spec.wall_cap {
                            stop.store(true, Ordering::Relaxed);
                        }
                        if stop.load(Ordering::Relaxed) {
                            break;
                        }
                        let i = next.fetch_add(1, Ordering::Relaxed);
                        if i >= level.skeletons.len() {
                            break;
                        }
                        let before = acc.inputs;
                        skeleton_unit(spec, level, &level.skeletons[i], subject, oracle, property, &mut acc, &stop, start);
                        lvl_inputs.fetch_add((acc.inputs - before) as usize, Ordering::Relaxed);
                    }
                    merge(&mut total.lock().unwrap(), acc, 8);
                });
            }
        });
        let done = !stop.load(Ordering::Relaxed);
        per_level.push(json!({
            "level": level.name, "skeletons": level.skeletons.len(), "dev1_forms": level.dev1.len(), "dev2_forms": level.dev2.len(),
            "wellformed_inputs": lvl_inputs.load(Ordering::Relaxed), "completed": done, "wall_s": lvl_start.elapsed().as_secs_f64()
        }));
        if done {
            completed.push(level.name.clone());
        } else {
            incomplete = Some(level.name.clone());
            break;
        }
    }
    let acc = total.into_inner().unwrap();
    let mut samples: Vec<(u64, Value)> = acc.samples;
    samples.sort_by_key(|s| s.0);
    samples.truncate(8);
    let mut cov = Coverage {
        states: acc.texts.len() as u64,
        transitions: acc.format_calls,
        evaluations: acc.oracle_evals,
        distinct_nontrivial: acc.nontrivial.len() as u64,
        rule: oracle.rule(),
        samples: samples.into_iter().map(|s| s.1).collect(),
        exhaustive: incomplete.is_none(),
        completed_levels: completed,
        incomplete_level: incomplete,
        extra: Default::default(),
    };
    cov.extra.insert("levels".into(), json!(per_level));
    cov.extra.insert("wellformed_inputs".into(), json!(acc.inputs));
    cov.extra.insert("rejected_illformed_candidates".into(), json!(acc.rejected));
    cov.extra.insert("not_admitted_by_oracle".into(), json!(acc.not_admitted));
    cov.extra.insert("format_calls".into(), json!(acc.format_calls));
    cov.extra.insert("explained_nonminimal_failures".into(), json!(acc.explained));
    cov.extra.insert("max_distinct_outputs_per_input".into(), json!(acc.max_distinct_outputs));
    cov.extra.insert(
        "mean_distinct_outputs_per_input".into(),
        json!(if acc.inputs > 0 { acc.sum_distinct_outputs as f64 / acc.inputs as f64 } else { 0.0 }),
    );
    cov.extra.insert(
        "mean_configurations_per_input".into(),
        json!(if acc.inputs > 0 { acc.sum_cfgs as f64 / acc.inputs as f64 } else { 0.0 }),
    );
    cov.extra.insert("threads".into(), json!(spec.threads));
    cov.extra.insert("wall_cap_s".into(), json!(spec.wall_cap.as_secs()));
    let mut failures: Vec<Failure> = acc.failures.into_values().collect();
    failures.sort_by(|a, b| a.signature.cmp(&b.signature));
    SweepResult { coverage: cov, failures }
}

fn add_failure(map: &mut HashMap<String, Failure>, f: Failure) {
    match map.get_mut(&f.signature) {
        None => {
            map.insert(f.signature.clone(), f);
        }
        Some(rep) => {
            let n = rep.count + f.count;
            if (f.input.len(), &f.input) < (rep.input.len(), &rep.input) {
                *rep = f;
            }
            rep.count = n;
        }
    }
}

fn merge(total: &mut Acc, acc: Acc, _k: usize) {
    total.texts.extend(acc.texts);
    total.nontrivial.extend(acc.nontrivial);
    total.format_calls += acc.format_calls;
    total.oracle_evals += acc.oracle_evals;
    total.inputs += acc.inputs;
    total.rejected += acc.rejected;
    total.not_admitted += acc.not_admitted;
    for (_, f) in acc.failures {
        add_failure(&mut total.failures, f);
    }
    total.explained += acc.explained;
    total.samples.extend(acc.samples);
    total.samples.sort_by_key(|s| s.0);
    total.samples.truncate(8);
    total.max_distinct_outputs = total.max_distinct_outputs.max(acc.max_distinct_outputs);
    total.sum_distinct_outputs += acc.sum_distinct_outputs;
    total.sum_cfgs += acc.sum_cfgs;
}

#[allow(clippy::too_many_arguments)]
fn eval_one(
    spec: &SweepSpec,
    subject: &dyn Subject,
    oracle: &dyn Oracle,
    text: &str,
    src: &SyntaxNode,
    acc: &mut Acc,
    label: &str,
    deviates: bool,
) -> Verdict {
    let cfgs = spec.policy.configs(subject, text);
    acc.format_calls += 1; // the F_inf probe of the policy
    let hin = h64(text, 0);
    acc.texts.insert(hin);
    let mut counters = (0u64, 0u64, 0u32);
    let mut first_out: Option<String> = None;
    let v = {
        let texts = &mut acc.texts;
        eval_input(
            subject,
            oracle,
            text,
            src,
            &cfgs,
            |o| {
                texts.insert(h64(o, 0));
                if first_out.is_none() {
                    first_out = Some(o.to_string());
                }
            },
            &mut counters,
        )
    };
    let mut v = v;
    // the sweeps call format_source on a Source with a fixed FileId; tie that to the public
    // entry point format_content once per input
    if let Some(c0) = cfgs.first().filter(|_| !src.erroneous()) {
        let a = guarded(|| subject.format_content(text, c0));
        let b = guarded(|| subject.format(text, c0));
        acc.format_calls += 1;
        if a != b {
            v.fails.push((Fail::new("entrypoint-mismatch", format!("format_content gives {a:?} but format_source gives {b:?}")), c0.clone()));
        }
    }
    acc.inputs += 1;
    acc.format_calls += counters.0;
    acc.oracle_evals += counters.1;
    acc.max_distinct_outputs = acc.max_distinct_outputs.max(counters.2);
    acc.sum_distinct_outputs += counters.2 as u64;
    acc.sum_cfgs += cfgs.len() as u64;
    if deviates || v.differs {
        acc.nontrivial.insert(hin);
    }
    // sample selection by seeded min-hash
    let key = h64(text, spec.seed.wrapping_add(1));
    if acc.samples.len() < 8 || key < acc.samples.last().map(|s| s.0).unwrap_or(u64::MAX) {
        acc.samples.push((
            key,
            json!({"derivation": label, "input": text, "configurations": cfgs.len(), "distinct_outputs": counters.2,
                   "first_config": cfgs.first().map(|c| c.show()), "first_output": first_out,
                   "failed_clauses": v.fails.iter().map(|f| f.0.clause.clone()).collect::<Vec<_>>()}),
        ));
        acc.samples.sort_by_key(|s| s.0);
        acc.samples.truncate(8);
    }
    v
}

#[allow(clippy::too_many_arguments)]
fn skeleton_unit(
    spec: &SweepSpec,
    level: &Level,
    sk: &Skeleton,
    subject: &dyn Subject,
    oracle: &dyn Oracle,
    property: &str,
    acc: &mut Acc,
    stop: &AtomicBool,
    start: Instant,
) {
    let model = spec.model;
    let base = model.instantiate(sk);
    let desc = model.describe(sk);
    let src = syntax::parse(&base);
    if src.erroneous() {
        acc.rejected += 1;
        return;
    }
    let _ = oracle.wants_illformed();
    let mut base_clauses: Vec<String> = vec![];
    if oracle.admits(&base, &src) {
        let v = eval_one(spec, subject, oracle, &base, &src, acc, &desc, false);
        for (f, cfg) in v.fails {
            base_clauses.push(f.clause.clone());
            add_failure(&mut acc.failures, Failure {
                property: property.into(),
                signature: format!("{}|{}|spine={}", property, f.clause, desc),
                clause: f.clause,
                input: base.clone(),
                cfg: Some(cfg),
                detail: f.detail,
                derivation: desc.clone(),
                extra: Value::Null,
                count: 1,
            });
        }
    } else {
        acc.not_admitted += 1;
    }
    if level.dev1.is_empty() {
        return;
    }
    let gaps = syntax::gaps(&src, base.len());
    let mut seen_local: HashSet<u64> = HashSet::new();
    seen_local.insert(h64(&base, 0));
    // verdicts of single deviations, for the minimality of pairs
    let mut single: HashMap<(usize, &'static str), Vec<String>> = HashMap::new();
    for (gi, g) in gaps.iter().enumerate() {
        if stop.load(Ordering::Relaxed) || start.elapsed() > spec.wall_cap {
            stop.store(true, Ordering::Relaxed);
            return;
        }
        for f in &level.dev1 {
            let text = model::apply_deviations(&base, &gaps, &[(gi, *f)]);
            if !seen_local.insert(h64(&text, 0)) {
                continue;
            }
            let s = syntax::parse(&text);
            if s.erroneous() {
                acc.rejected += 1;
                continue;
            }
            if !oracle.admits(&text, &s) {
                acc.not_admitted += 1;
                continue;
            }
            let sig = model::gap_signature(g, f);
            let label = format!("{desc} + {sig}");
            let v = eval_one(spec, subject, oracle, &text, &s, acc, &label, true);
            let mut clauses = vec![];
            for (fl, cfg) in v.fails {
                clauses.push(fl.clause.clone());
                if base_clauses.contains(&fl.clause) {
                    acc.explained += 1;
                    continue;
                }
                add_failure(&mut acc.failures, Failure {
                    property: property.into(),
                    signature: format!("{}|{}|dev={}|at={}", property, fl.clause, sig, desc),
                    clause: fl.clause,
                    input: text.clone(),
                    cfg: Some(cfg),
                    detail: fl.detail,
                    derivation: label.clone(),
                    extra: Value::Null,
                    count: 1,
                });
            }
            if !clauses.is_empty() {
                single.insert((gi, f.name), clauses);
            }
        }
    }
    if level.dev2.is_empty() {
        return;
    }
    for gi in 0..gaps.len() {
        for gj in (gi + 1)..gaps.len() {
            if stop.load(Ordering::Relaxed) || start.elapsed() > spec.wall_cap {
                stop.store(true, Ordering::Relaxed);
                return;
            }
            for fa in &level.dev2 {
                for fb in &level.dev2 {
                    let text = model::apply_deviations(&base, &gaps, &[(gi, *fa), (gj, *fb)]);
                    if !seen_local.insert(h64(&text, 0)) {
                        continue;
                    }
                    let s = syntax::parse(&text);
                    if s.erroneous() {
                        acc.rejected += 1;
                        continue;
                    }
                    if !oracle.admits(&text, &s) {
                        acc.not_admitted += 1;
                        continue;
                    }
                    let sa = model::gap_signature(&gaps[gi], fa);
                    let sb = model::gap_signature(&gaps[gj], fb);
                    let label = format!("{desc} + {sa} + {sb}");
                    let v = eval_one(spec, subject, oracle, &text, &s, acc, &label, true);
                    for (fl, cfg) in v.fails {
                        let explained = base_clauses.contains(&fl.clause)
                            || single.get(&(gi, fa.name)).is_some_and(|c| c.contains(&fl.clause))
                            || single.get(&(gj, fb.name)).is_some_and(|c| c.contains(&fl.clause));
                        if explained {
                            acc.explained += 1;
                            continue;
                        }
                        add_failure(&mut acc.failures, Failure {
                            property: property.into(),
                            signature: format!("{}|{}|dev={}&dev={}|at={}", property, fl.clause, sa, sb, desc),
                            clause: fl.clause,
                            input: text.clone(),
                            cfg: Some(cfg),
                            detail: fl.detail,
                            derivation: label.clone(),
                            extra: Value::Null,
                            count: 1,
                        });
                    }
                }
            }
        }
    }
}

#[derive(Clone, Copy, PartialEq, Eq)]
pub enum SpineFilter {
    /// no ugly productions anywhere
    Clean,
    /// the innermost production is from the ugly payload alphabet, the others are clean
    UglyLast,
    /// like Clean, and the innermost production has no holes (a literal-like leaf)
    LeafLast,
}

pub fn skeletons(model: &Model, ctxs: &[&str], ks: &[usize], sizes: &[model::Size]) -> Vec<Skeleton> {
    skeletons_f(model, ctxs, ks, sizes, SpineFilter::Clean)
}

/// Build the skeleton list for contexts x spine depth x sizes.
pub fn skeletons_f(model: &Model, ctxs: &[&str], ks: &[usize], sizes: &[model::Size], filter: SpineFilter) -> Vec<Skeleton> {
    let mut res = vec![];
    for c in ctxs {
        let ci = model.ctx_index(c);
        for &k in ks {
            for spine in model.spines(ci, k) {
                let n = spine.len();
                let ok = match filter {
                    SpineFilter::Clean => spine.iter().all(|(p, _)| !model.prods[*p].ugly),
                    SpineFilter::UglyLast => {
                        n > 0 && model.prods[spine[n - 1].0].ugly && spine[..n - 1].iter().all(|(p, _)| !model.prods[*p].ugly)
                    }
                    SpineFilter::LeafLast => {
                        n > 0 && model.prods[spine[n - 1].0].holes == 0 && spine.iter().all(|(p, _)| !model.prods[*p].ugly)
                    }
                };
                if !ok {
                    continue;
                }
                for &size in sizes {
                    res.push(Skeleton { ctx: ci, spine: spine.clone(), size });
                }
            }
        }
    }
    res
}

/// Decorated spines: one structural production, then a chain of <= `max_dec` cheap single-hole
/// "decorator" productions (parentheses, unary operators, field access, empty call ...), then a
/// literal-like leaf production (or an atom). Reaches interactions that need four or five levels
/// of nesting (`(-3).abs()`, `not (a.b)()` ...) at the cost of a k=2 sweep.
pub fn decorated_skeletons(model: &Model, ctxs: &[&str], decorators: &[&str], max_dec: usize, leaves: &[&str]) -> Vec<Skeleton> {
    let dec: Vec<usize> = decorators.iter().map(|n| model.prod_index(n)).collect();
    let leaf: Vec<usize> = leaves.iter().map(|n| model.prod_index(n)).collect();
    let mut res = vec![];
    for c in ctxs {
        let ci = model.ctx_index(c);
        let root_hole = model.ctxs[ci].hole;
        for (pi, p) in model.prods.iter().enumerate() {
            if p.ugly || p.holes == 0 || !root_hole.accepts(p.sort) {
                continue;
            }
            let mut hi = 0;
            for seg in &p.segs {
                let model::Seg::Hole(h) = seg else { continue };
                let hole_index = hi;
                hi += 1;
                if !h.accepts(model::Sort::E) {
                    continue;
                }
                // chains of decorators
                let mut chains: Vec<Vec<usize>> = vec![vec![]];
                let mut cur: Vec<Vec<usize>> = vec![vec![]];
                for _ in 0..max_dec {
                    let mut next = vec![];
                    for ch in &cur {
                        for &d in &dec {
                            let mut n = ch.clone();
                            n.push(d);
                            next.push(n);
                        }
                    }
                    chains.extend(next.iter().cloned());
                    cur = next;
                }
                for ch in &chains {
                    if ch.is_empty() {
                        continue; // plain k<=2 spines are covered by the ordinary levels
                    }
                    let mut spine = vec![(pi, hole_index)];
                    for &d in ch {
                        spine.push((d, 0));
                    }
                    // atom at the bottom
                    res.push(Skeleton { ctx: ci, spine: spine.clone(), size: model::Size::Short });
                    for &l in &leaf {
                        let mut s2 = spine.clone();
                        s2.push((l, 0));
                        res.push(Skeleton { ctx: ci, spine: s2, size: model::Size::Short });
                    }
                }
            }
        }
    }
    res
}
