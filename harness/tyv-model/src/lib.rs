pub mod model;
pub mod oracles;
pub mod report;
pub mod subject;
pub mod sweep;
pub mod syntax;
