pub mod families;
pub mod model;
pub mod nf;
pub mod oracles;
pub mod report;
pub mod subject;
pub mod sweep;
pub mod syntax;
