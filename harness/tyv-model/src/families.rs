//! Free-standing exhaustive input families (not skeleton based): prose sequences (C08), math
//! sequences (C09), literal alphabet in context spines (C10), degenerate documents (C11),
//! import statements (C19). Each returns (derivation label, text).

pub type Inputs = Vec<(String, String)>;

/// All sequences of 1..=max_len alphabet elements joined by each separator; returns (label, text).
/// The label spells the sequence with the separators encoded: "+" nothing, "_" space, "⏎" line feed.
fn seqs(alphabet: &[&str], seps: &[&str], max_len: usize) -> Vec<(String, String)> {
    let code = |s: &str| match s {
        "" => "+",
        " " => "_",
        "\n" => "⏎",
        _ => "?",
    };
    let mut res: Vec<(String, String)> = vec![];
    let mut cur: Vec<(String, String)> = vec![(String::new(), String::new())];
    for len in 1..=max_len {
        let mut next = vec![];
        for (pl, pt) in &cur {
            for a in alphabet {
                if len == 1 {
                    next.push((a.to_string(), a.to_string()));
                } else {
                    for s in seps {
                        next.push((format!("{pl}{}{a}", code(s)), format!("{pt}{s}{a}")));
                    }
                }
            }
        }
        res.extend(next.iter().cloned());
        cur = next;
    }
    res
}

pub const PROSE_ALPHABET: [&str; 17] = [
    "foo", "bar baz", "\\#", "a---b", "\"q\"", "https://a.b/c", "<lab>", "@ref", "*s t*", "_e_", "`r`", "$x$", "#a", "#g(a, b)",
    "/*c*/", "#[c d]", "\\",
];

/// Markup-centred model: all sequences of <= `n` inline elements separated by space / nothing,
/// in every markup-bearing context; two-line and paragraph structures; long lines.
pub fn prose(n: usize, long: bool) -> Inputs {
    let lines = seqs(&PROSE_ALPHABET, &[" ", ""], n);
    let short_lines = seqs(&PROSE_ALPHABET, &[" ", ""], n.min(2));
    let ctx1: Vec<(&str, &str, &str)> = vec![
        ("doc", "", ""),
        ("block", "#[", "]"),
        ("block_sp", "#[ ", " ]"),
        ("block_ml", "#[\n  ", "\n]"),
        ("nested", "#[#[", "]]"),
        ("strong", "*", "*"),
        ("emph", "_x ", "_"),
        ("heading", "= ", ""),
        ("list", "- ", ""),
        ("enum", "+ ", ""),
        ("term", "/ t: ", ""),
        ("call_trailing", "#g(a)[", "]"),
        ("if_block", "#if c [", "]"),
        ("in_code", "#{\n  [", "]\n}"),
        // block elements whose last token meets the closing bracket, with and without a blank
        ("block_list", "#[- ", "]"),
        ("block_list_sp", "#[- ", " ]"),
        ("block_enum_sp", "#[+ ", " ]"),
        ("block_term_sp", "#[/ t: ", " ]"),
        ("block_heading_sp", "#[= ", " ]"),
        ("call_list_sp", "#g(a)[- ", " ]"),
        ("nested_list_sp", "- #[- ", " ] x"),
    ];
    let mut out = vec![];
    for (cn, pre, post) in &ctx1 {
        for (ll, l) in &lines {
            out.push((format!("prose:{cn}:{}", ll.replace('\n', "⏎")), format!("{pre}{l}{post}")));
        }
    }
    // two lines: line break, paragraph breaks with 2..4 line feeds, list continuation lines
    let ctx2: Vec<(&str, &str, &str, &str)> = vec![
        ("two_lines", "", "\n", ""),
        ("par2", "", "\n\n", ""),
        ("par3", "", "\n\n\n", ""),
        ("par4", "", "\n\n\n\n", ""),
        ("list_cont", "- ", "\n  ", ""),
        ("list_par", "- ", "\n\n  ", ""),
        ("list_sibling", "- ", "\n- ", ""),
        ("list_child", "- ", "\n  - ", ""),
        ("block_two_lines", "#[", "\n", "]"),
        ("block_par", "#[\n  ", "\n\n  ", "\n]"),
        ("term_cont", "/ t: ", "\n  ", ""),
        ("heading_then", "= ", "\n", ""),
    ];
    let singles = seqs(&PROSE_ALPHABET, &[" ", ""], 1);
    for (cn, pre, mid, post) in &ctx2 {
        for (al, a) in &short_lines {
            for (bl, b) in &singles {
                out.push((format!("prose:{cn}:{al}|{bl}"), format!("{pre}{a}{mid}{b}{post}")));
                out.push((format!("prose:{cn}:{bl}|{al}"), format!("{pre}{b}{mid}{a}{post}")));
            }
        }
    }
    if long {
        let l90 = "lorem ipsum dolor sit amet consectetur adipiscing elit sed do eiusmod tempor incididunt ut lab";
        let l130 = "lorem ipsum dolor sit amet consectetur adipiscing elit sed do eiusmod tempor incididunt ut labore et dolore magna aliqua ut enim ad minim v";
        for (ln, long_line) in [("90", l90), ("130", l130)] {
            for (cn, pre, post) in &ctx1 {
                for (ll, l) in &short_lines {
                    out.push((format!("prose:{cn}:long{ln}:mid:{ll}"), format!("{pre}{long_line} {l} {long_line}{post}")));
                    out.push((format!("prose:{cn}:long{ln}:head:{ll}"), format!("{pre}{l} {long_line}{post}")));
                }
            }
        }
    }
    out
}

pub const MATH_ALPHABET: [&str; 23] = [
    "x", "pi", "12", "\"t\"", "f(x)", "x_1", "x^2", "a/b", "(x)", "[x]", "|x|", "#a", "&", "\\", "->", "x.y", "x'", "√x", "/*c*/",
    "mat(1, 2; 3, 4)", "sin(x)", "vec(1, 2)", "fn()",
];

/// Math-centred model: all sequences of <= `n` math items with {nothing, space, line feed}
/// between them, in every math context.
pub fn math(n: usize) -> Inputs {
    let items = seqs(&MATH_ALPHABET, &["", " ", "\n"], n);
    let ctxs: Vec<(&str, &str, &str)> = vec![
        ("inline", "$", "$"),
        ("block", "$ ", " $"),
        ("block_ml", "$\n  ", "\n$"),
        ("paren", "$(", ")$"),
        ("paren_sp", "$( ", " )$"),
        ("call_arg", "$f(", ")$"),
        ("call_arg2", "$f(a, ", "; b)$"),
        ("sub", "$x_(", ")$"),
        ("frac", "$(", ")/y$"),
        ("root", "$√(", ")$"),
        ("in_code", "#let v = $", "$"),
        ("in_content", "#[$", "$]"),
        ("in_arg", "#g($", "$)"),
        ("in_list", "- $", "$"),
        ("lr", "$lr([", "))$"),
        ("attach_call", "$f_(", ")(y)$"),
    ];
    let mut out = vec![];
    for (cn, pre, post) in &ctxs {
        for (il, it) in &items {
            out.push((format!("math:{cn}:{}", il.replace('\n', "⏎")), format!("{pre}{it}{post}")));
        }
    }
    out
}

pub const LITERALS: [(&str, &str); 53] = [
    ("str", "\"s\""),
    ("str_esc", "\"a\\\"b\\n\\u{41}\""),
    ("str_nl", "\"a\nb\""),
    ("str_nl_blank", "\"a  \nb\""),
    ("str_nl_indent", "\"a\n    b\""),
    ("str_empty", "\"\""),
    ("raw_inline", "`r  w`"),
    ("raw_inline_ml", "`r\n w`"),
    ("raw3", "```\nx\n```"),
    ("raw3_lang", "```py\nx\n```"),
    ("raw3_one", "```py x```"),
    ("raw3_first", "```py x\ny\n```"),
    ("raw4", "````\n```\n````"),
    ("raw_empty", "``````"),
    ("raw_dedent_less", "```\n    x\n  y\n```"),
    ("raw_dedent_more", "```\n  x\n      y\n  ```"),
    ("raw_fence_indent", "```\nx\n    ```"),
    ("raw_blank_lines", "```\nx\n\n\ny\n```"),
    ("raw_trailing_blank", "```\nx  \ny\n```"),
    ("raw_tab", "```\n\tx\n```"),
    ("int", "1"),
    ("float", "1.5"),
    ("float_dot", "1."),
    ("exp", "1e3"),
    ("hex", "0xff"),
    ("bin", "0b1"),
    ("oct", "0o7"),
    ("em", "1em"),
    ("pt", "2.5pt"),
    ("pct", "50%"),
    ("fr", "1fr"),
    ("deg", "90deg"),
    ("ident_dash", "a-b_c"),
    ("ident_uni", "é"),
    ("label", "<a:b-c.d>"),
    ("bool", "false"),
    ("none", "none"),
    ("str_long", "\"lorem ipsum dolor sit amet consectetur adipiscing elit sed do eiusmod tempor incididunt\""),
    ("str_cr", "\"a\r\nb\""),
    ("raw_crlf", "```\r\nx\r\ny\r\n```"),
    ("str_tab", "\"a\tb\""),
    ("raw_inline_tick", "`` a`b ``"),
    ("str_nl_tab_end", "\"a\t\nb\""),
    ("raw_ls", "```\nx\u{2028}y\n```"),
    // every other line terminator of Typst inside inline raw text and strings: the printer must not
    // lay these literals out line by line (the lines after the first would pick up indentation)
    ("raw_inline_ls", "`a\u{2028}b`"),
    ("raw_inline_ps", "`a\u{2029}b`"),
    ("raw_inline_nel", "`a\u{85}b`"),
    ("raw_inline_ff", "`a\u{c}b`"),
    ("raw_inline_vt", "`a\u{b}b`"),
    ("raw_inline_cr", "`a\rb`"),
    ("str_ls", "\"a\u{2028}b\""),
    ("str_ff", "\"a\u{c} b\""),
    ("raw3_nel", "```\nx\u{85}  y\n```"),
];

/// Markup-position literal alphabet (same role, different lexical mode).
pub const MARKUP_LITERALS: [(&str, &str); 19] = [
    ("m_ref", "@ref"),
    ("m_ref_dot", "@a.b:c"),
    ("m_label", "foo <a:b-c.d>"),
    ("m_link", "https://a.b/c(d)[e]"),
    ("m_link_paren", "https://a.b/(c"),
    ("m_escape", "\\# \\u{41} \\$"),
    ("m_shorthand", "a --- b -- c ... -? ~"),
    ("m_quote", "\"a\" 'b'"),
    ("m_raw3", "```py\n  x  \n    y\n  ```"),
    ("m_raw_inline", "`r  w`"),
    ("m_num_text", "1.5pt 0xff"),
    ("m_math_lit", "$1.5 0xff \"s  t\" a-b$"),
    ("m_ref_supp", "@ref[s  t]"),
    ("m_at", "a\\@b.c"),
    ("m_raw_inline_ls", "`a\u{2028}b`"),
    ("m_raw_inline_nel", "`a\u{85}b`"),
    ("m_raw_inline_ff", "`a\u{c}b`"),
    ("m_raw_inline_cr", "`a\rb`"),
    ("m_raw_inline_lf", "`a\n b`"),
];

/// Literal alphabet in every context: `spines` are (label, prefix, suffix) wrappers produced from
/// the model's skeleton machinery by the caller (text with a single `\u{1}` placeholder).
pub fn literals_in(wrappers: &[(String, String)]) -> Inputs {
    let mut out = vec![];
    for (label, w) in wrappers {
        let Some(pos) = w.find('\u{1}') else { continue };
        let (pre, post) = (&w[..pos], &w[pos + 1..]);
        // indentation of the hole line, for continuation lines of multi-line literals
        let line_start = pre.rfind('\n').map(|i| i + 1).unwrap_or(0);
        let indent: String = pre[line_start..].chars().take_while(|c| *c == ' ').collect();
        for (ln, lit) in LITERALS.iter() {
            // variant 1: continuation lines as written (less indented than the context)
            out.push((format!("lit:{ln}@{label}"), format!("{pre}{lit}{post}")));
            if lit.contains('\n') && !indent.is_empty() {
                // variant 2: continuation lines indented like the hole line
                let l2 = lit.replace('\n', &format!("\n{indent}"));
                out.push((format!("lit:{ln}+indent@{label}"), format!("{pre}{l2}{post}")));
                // variant 3: indented deeper
                let l3 = lit.replace('\n', &format!("\n{indent}    "));
                out.push((format!("lit:{ln}+deeper@{label}"), format!("{pre}{l3}{post}")));
            }
        }
    }
    out
}

pub fn markup_literals() -> Inputs {
    let ctxs: Vec<(&str, &str, &str)> = vec![
        ("doc", "", ""),
        ("block", "#[", "]"),
        ("block_ml", "#[\n  ", "\n]"),
        ("list", "- ", ""),
        ("list_nested", "- a\n  - ", ""),
        ("strong", "*", "*"),
        ("heading", "= ", ""),
        ("in_code", "#{\n  [", "]\n}"),
        ("in_code2", "#{\n  if c {\n    [", "]\n  }\n}"),
        ("call_trailing", "#g(a)[", "]"),
        ("text_around", "foo ", " bar"),
        ("term", "/ t: ", ""),
    ];
    let mut out = vec![];
    for (cn, pre, post) in &ctxs {
        let line_start = pre.rfind('\n').map(|i| i + 1).unwrap_or(0);
        let indent: String = pre[line_start..].chars().take_while(|c| *c == ' ').collect();
        for (ln, lit) in MARKUP_LITERALS.iter() {
            out.push((format!("mlit:{ln}@{cn}"), format!("{pre}{lit}{post}")));
            if lit.contains('\n') && !indent.is_empty() {
                let l2 = lit.replace('\n', &format!("\n{indent}"));
                out.push((format!("mlit:{ln}+indent@{cn}"), format!("{pre}{l2}{post}")));
            }
        }
    }
    out
}

/// Line ends inside text that the printer copies as it is (C11): every carrier x every blank
/// character x LF / CRLF / mixed line ends x a document that does / does not need cleaning elsewhere.
pub fn line_ends() -> Inputs {
    let carriers: [(&str, &str); 11] = [
        ("line_comment", "// c{B}{N}text"),
        ("line_comment_after_code", "#let a = 1 // c{B}{N}text"),
        ("block_comment", "/* c{B}{N} d */"),
        ("raw_block", "```{N}x{B}{N}```"),
        ("string", "#let v = \"a{B}{N}b\""),
        ("string_arg", "#f(\"a{B}{N}b\", c)"),
        ("raw_inline", "`r{B}{N}w`"),
        ("directive", "// @typstyle off{N}#f(a,{B}{N}  b)"),
        ("comment_in_code", "#{{N}  // c{B}{N}  a{N}}"),
        ("comment_in_math", "$ x // c{B}{N} $"),
        ("comment_in_args", "#f(a, // c{B}{N}  b)"),
    ];
    let blanks = ["", " ", "\t", "\u{a0}", "\u{2003}", "\u{3000}", " \u{3000}", "\u{3000} ", "\u{b}", "\u{c}", "\u{85}", "\u{1680}", "\u{202f}", "\u{205f}", "\u{2028}"];
    let tails = [("clean", ""), ("clean_nl", "{N}"), ("clean_par", "{N}{N}text{N}"), ("dirty", "{N}#{{N}  a{N}{N}  b{N}}"), ("dirty_comment", "{N}// d  ")];
    let mut out = vec![];
    for (cn, c) in carriers {
        for b in blanks {
            for (tn, t) in tails {
                for (nn, inner, outer) in [("lf", "\n", "\n"), ("crlf", "\r\n", "\r\n"), ("mixed", "\r\n", "\n"), ("cr", "\r", "\n")] {
                    // the line end directly after the blank is the 'inner' one
                    let mut text = c.replace("{B}{N}", &format!("{b}{inner}")).replace("{N}", outer);
                    text.push_str(&t.replace("{N}", outer));
                    out.push((format!("line-end:{cn}:{tn}:{nn}"), text));
                }
            }
        }
    }
    out
}

/// Degenerate documents for C11.
pub fn degenerate() -> Inputs {
    let mut out: Inputs = vec![("degenerate:empty".into(), String::new())];
    let ws = [' ', '\t', '\n', '\r'];
    let mut cur = vec![String::new()];
    for _ in 0..3 {
        let mut next = vec![];
        for p in &cur {
            for c in ws {
                next.push(format!("{p}{c}"));
            }
        }
        for t in &next {
            out.push(("degenerate:ws".into(), t.clone()));
        }
        cur = next;
    }
    let tails = [
        "a //c", "a //c  ", "a /*c*/", "a /*c*/  ", "a /*c\n d*/", "```\nx\n```", "```\nx  \n```  ", "a\n\n\n", "a \\", "a \\\n", "a  ", "a\t",
        "#a  ", "#{a}  \n  ", "$x$  ", "- a  \n  ", "= a  ", "//c", "/*c*/", "#!shebang", "\u{a0}", "a\u{a0}", "a\u{2003}\nb", "a \u{3000}",
        "#\"s  \"  ", "#\"s  \n\"", "`r  `  ", "a\u{85}", "a\u{2028}", "a\x0b", "a\x0c", "#[ ]  ", "#[a  ]  ", "#(1, 2)  \n\n", "  a", "\n\na", "\ta\t",
    ];
    for t in tails {
        out.push(("degenerate:tail".into(), t.to_string()));
        out.push(("degenerate:tail+nl".into(), format!("{t}\n")));
        out.push(("degenerate:tail+2".into(), format!("{t}\n{t}")));
    }
    // verbatim text (a comment, a shebang line) that ends the document with each kind of blank, with
    // and without a final line terminator: the last line is the one a line-oriented pass treats apart
    for carrier in ["//c", "a //c", "#!shebang", "#a //c", "$x$ //c", "- a //c", "a\n//c", "/*c*/\n//d"] {
        for blank in [" ", "\t", "  ", " \t", "\t ", "\u{a0}", "\u{3000}", "\u{2003}", " \u{a0}"] {
            for end in ["", "\n", "\r\n", "\r"] {
                out.push((format!("degenerate:eof:{}", crate::syntax::esc(&format!("{carrier}{blank}{end}"))), format!("{carrier}{blank}{end}")));
            }
        }
    }
    out
}

pub const IMPORT_ITEMS: [&str; 11] = ["a", "b", "c", "a as x", "b as a", "c as c", "a.b", "a.b as d", "B", "a as y", "a-c"];

fn item_tokens(item: &str) -> Vec<&str> {
    // identifiers, dots and the keyword 'as' of an import item
    let mut v = vec![];
    for w in item.split(' ') {
        let mut rest = w;
        while let Some(i) = rest.find('.') {
            if i > 0 {
                v.push(&rest[..i]);
            }
            v.push(&rest[i..i + 1]);
            rest = &rest[i + 1..];
        }
        if !rest.is_empty() {
            v.push(rest);
        }
    }
    v
}

/// All import statements of the bounded alphabet (DESIGN §5 C19). `max_items` <= 4.
pub fn imports(max_items: usize, trivia: &[(&str, &str)]) -> Inputs {
    let modules = ["\"m.typ\"", "m", "m.sub", "\"m.typ\" as n"];
    let mut lists: Vec<Vec<&str>> = vec![vec![]];
    let mut cur: Vec<Vec<&str>> = vec![vec![]];
    for _ in 0..max_items {
        let mut next = vec![];
        for p in &cur {
            for it in IMPORT_ITEMS {
                let mut q = p.clone();
                q.push(it);
                next.push(q);
            }
        }
        lists.extend(next.iter().cloned());
        cur = next;
    }
    let ctxs: Vec<(&str, &str, &str)> = vec![("markup", "#", ""), ("code", "#{\n  ", "\n}"), ("content", "#[#", "]"), ("mixed", "foo #", " bar")];
    let mut out = vec![];
    for (mi, m) in modules.iter().enumerate() {
        for items in &lists {
            if items.is_empty() {
                for (cn, pre, post) in &ctxs {
                    out.push((format!("import:{cn}:empty-paren"), format!("{pre}import {m}: (){post}")));
                    out.push((format!("import:{cn}:empty-paren-sp"), format!("{pre}import {m}: ( ){post}")));
                    out.push((format!("import:{cn}:bare"), format!("{pre}import {m}{post}")));
                    if !m.contains(" as ") {
                        out.push((format!("import:{cn}:star"), format!("{pre}import {m}: *{post}")));
                    }
                }
                continue;
            }
            // full module x shape product only for short lists; long lists use the first module
            if items.len() > 2 && mi > 0 {
                continue;
            }
            let shapes: Vec<(&str, String)> = vec![
                ("bare", items.join(", ")),
                ("paren", format!("({})", items.join(", "))),
                ("trailing", format!("{},", items.join(", "))),
                ("paren_trailing", format!("({},)", items.join(", "))),
                ("multiline", format!("(\n  {},\n)", items.join(",\n  "))),
                ("tight", items.join(",")),
            ];
            for (sn, list) in &shapes {
                for (cn, pre, post) in &ctxs {
                    if items.len() > 3 && *cn != "markup" {
                        continue;
                    }
                    let base = format!("{pre}import {m}: {list}{post}");
                    out.push((format!("import:{cn}:{sn}"), base.clone()));
                }
            }
            // blanks inside an item (the sort key must not depend on them)
            if items.len() >= 2 && items.len() <= 3 && mi == 0 {
                for pos in 0..items.len() {
                    if !items[pos].contains(" as ") {
                        continue;
                    }
                    let mut v: Vec<String> = items.iter().map(|s| s.to_string()).collect();
                    v[pos] = v[pos].replace(" as ", "  as ");
                    out.push(("import:markup:inner-blanks".to_string(), format!("#import \"m.typ\": {}", v.join(", "))));
                    v[pos] = items[pos].replace(" as ", " as  ");
                    out.push(("import:markup:inner-blanks".to_string(), format!("#import \"m.typ\": {}", v.join(", "))));
                }
            }
            // one trivia deviation at every token boundary inside an item (path dots, 'as'): a comment
            // anywhere in the statement keeps its order, however deep it sits in the item's subtree
            if items.len() == 2 && mi == 0 {
                for (tn, t) in trivia {
                    for pos in 0..items.len() {
                        let toks = item_tokens(items[pos]);
                        for cut in 1..toks.len() {
                            let mut it = String::new();
                            for (k, tk) in toks.iter().enumerate() {
                                if k == cut {
                                    it.push_str(t);
                                } else if k > 0 && (*tk == "as" || toks[k - 1] == "as") {
                                    it.push(' ');
                                }
                                it.push_str(tk);
                            }
                            let mut v: Vec<String> = items.iter().map(|s| s.to_string()).collect();
                            v[pos] = it;
                            out.push((format!("import:markup:inner-trivia:{tn}"), format!("#import \"m.typ\": ({})", v.join(", "))));
                        }
                    }
                }
            }
            // one trivia deviation after each item separator (comments make the statement keep its order)
            if items.len() >= 2 && items.len() <= 3 && mi == 0 {
                for (tn, t) in trivia {
                    for pos in 0..items.len() {
                        let mut s = String::from("#import \"m.typ\": (");
                        for (i, it) in items.iter().enumerate() {
                            if i > 0 {
                                s.push_str(", ");
                            }
                            if i == pos {
                                s.push_str(t);
                            }
                            s.push_str(it);
                        }
                        s.push(')');
                        out.push((format!("import:markup:trivia:{tn}"), s));
                    }
                }
            }
        }
    }
    out
}

/// Whitespace spellings: every sequence of <= 3 elements over {LF, CR, CRLF, space, tab, LS, FF, VT}
/// and long runs of line feeds (counter widths: 255, 256, 257, 65 536 ...), placed between two
/// words in every markup-bearing context and between code / math items.
pub fn ws_spellings() -> Inputs {
    let elems: [(&str, &str); 8] =
        [("LF", "\n"), ("CR", "\r"), ("CRLF", "\r\n"), ("SP", " "), ("TAB", "\t"), ("LS", "\u{2028}"), ("FF", "\u{c}"), ("VT", "\u{b}")];
    let mut spellings: Vec<(String, String)> = vec![];
    let mut cur: Vec<(String, String)> = vec![(String::new(), String::new())];
    for _ in 0..3 {
        let mut next = vec![];
        for (l, t) in &cur {
            for (en, et) in elems {
                next.push((if l.is_empty() { en.to_string() } else { format!("{l}.{en}") }, format!("{t}{et}")));
            }
        }
        spellings.extend(next.iter().cloned());
        cur = next;
    }
    for n in [4usize, 5, 16, 255, 256, 257, 1000, 65_535, 65_536, 65_537] {
        spellings.push((format!("LFx{n}"), "\n".repeat(n)));
    }
    let ctxs: Vec<(&str, &str, &str, &str)> = vec![
        ("doc", "Alpha beta", "gamma delta", ""),
        ("block", "#[Alpha beta", "gamma delta]", ""),
        ("list", "- Alpha beta", "  gamma delta", ""),
        ("strong", "*Alpha beta", "gamma delta*", ""),
        ("nested", "#g[#[Alpha", "beta]]", ""),
        ("heading_then", "= Alpha", "beta", ""),
        ("code_args", "#f(a,", "b)", ""),
        ("code_block", "#{a", "b}", ""),
        ("math", "$x", "y$", ""),
        ("math_paren", "$(x", "y)$", ""),
        ("math_args", "$fn(x,", "y)$", ""),
        ("after_hash", "#a", "b", ""),
    ];
    let mut out = vec![];
    for (cn, pre, post, _) in &ctxs {
        for (sl, st) in &spellings {
            out.push((format!("ws:{cn}:{sl}"), format!("{pre}{st}{post}")));
        }
    }
    // blank characters that are TEXT in markup (no-break space, ideographic space, em space) at the
    // end of a line: they belong to the prose, and they are what a trailing-blank pass removes
    for (cn, pre, post, _) in ctxs.iter().take(6) {
        for (bn, b) in [("NBSP", "\u{a0}"), ("IDSP", "\u{3000}"), ("EMSP", "\u{2003}"), ("SP.NBSP", " \u{a0}"), ("NBSP.SP", "\u{a0} ")] {
            for (en, e) in [("LF", "\n"), ("LF.LF", "\n\n"), ("CRLF", "\r\n")] {
                out.push((format!("ws:{cn}:TEXTBLANK.{bn}.{en}"), format!("{pre}{b}{e}{post}")));
            }
        }
    }
    out
}
