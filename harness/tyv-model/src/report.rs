//! Failures, known findings, replay artefacts, evidence files, exit codes (DESIGN.md §2, §7).

use std::collections::BTreeMap;
use std::path::{Path, PathBuf};

use base64::Engine as _;
use serde::{Deserialize, Serialize};
use serde_json::{json, Value};

use crate::subject::Cfg;
use crate::syntax::esc;

pub const VERIF_ROOT: &str = "/verif";

/// Where evidence and replay files go. Always /verif for the registered commands; the mutation
/// runner (tools/mutant_check.sh) redirects it so that runs against a scratch worktree never
/// overwrite the evidence of the real tree.
pub fn out_root() -> String {
    std::env::var("VERIF_OUT_ROOT").unwrap_or_else(|_| VERIF_ROOT.to_string())
}

#[derive(Clone, Debug, Serialize, Deserialize)]
pub struct Failure {
    pub property: String,
    pub clause: String,
    /// identity of the failure: clause + failing call site (construct, gap, trivia family / scenario)
    pub signature: String,
    pub input: String,
    pub cfg: Option<Cfg>,
    pub detail: String,
    pub derivation: String,
    /// engine specific replay payload (CLI scenario, schedule, range, ...)
    #[serde(default)]
    pub extra: Value,
    /// number of failing cases this record stands for (engines may pre-aggregate by signature)
    #[serde(default = "one")]
    pub count: usize,
}

fn one() -> usize {
    1
}

#[derive(Clone, Debug, Serialize, Deserialize)]
pub struct KnownFinding {
    pub id: String,
    pub property: String,
    /// "open" (recorded, not repaired) or "fixed" (repaired by a fix: commit; suppresses nothing)
    pub status: String,
    /// regular expression over failure signatures (searched, not anchored unless it says so)
    #[serde(default)]
    pub pattern: String,
    /// exact example re-checked on every run; an entry whose example no longer fails matches nothing
    #[serde(default)]
    pub example: Value,
    pub what_fails: String,
    #[serde(default)]
    pub commit: String,
    #[serde(default)]
    pub class: String,
}

#[derive(Clone, Debug, Default, Serialize, Deserialize)]
pub struct KnownFindings {
    pub findings: Vec<KnownFinding>,
}

impl KnownFindings {
    pub fn load() -> KnownFindings {
        let p = Path::new(VERIF_ROOT).join("known_findings.json");
        match std::fs::read_to_string(&p) {
            Ok(s) => serde_json::from_str(&s).unwrap_or_else(|e| {
                eprintln!("MACHINERY: cannot parse {}: {e}", p.display());
                std::process::exit(2)
            }),
            Err(_) => KnownFindings::default(),
        }
    }
    pub fn open_for(&self, property: &str) -> Vec<&KnownFinding> {
        self.findings.iter().filter(|f| f.property == property && f.status == "open").collect()
    }
}

pub fn tier_from_env(arg: Option<&str>) -> String {
    let t = arg.map(|s| s.to_string()).or_else(|| std::env::var("VERIF_TIER").ok()).unwrap_or_else(|| "quick".into());
    if t == "thorough" {
        "thorough".into()
    } else {
        "quick".into()
    }
}

pub fn seed_from_env() -> u64 {
    std::env::var("VERIF_SEED").ok().and_then(|s| s.parse::<i64>().ok()).map(|v| v as u64).unwrap_or(0)
}

/// Coverage counters shared by the engines.
#[derive(Default, Debug, Clone)]
pub struct Coverage {
    pub states: u64,
    pub transitions: u64,
    pub evaluations: u64,
    pub distinct_nontrivial: u64,
    pub rule: String,
    pub samples: Vec<Value>,
    pub exhaustive: bool,
    pub completed_levels: Vec<String>,
    pub incomplete_level: Option<String>,
    pub extra: BTreeMap<String, Value>,
}

pub struct Outcome {
    pub property: String,
    pub tier: String,
    pub seed: u64,
    pub coverage: Coverage,
    pub assumptions: Vec<String>,
    pub failures: Vec<Failure>,
    pub wall_s: f64,
}

fn short_hash(s: &str) -> String {
    // FNV-1a 64
    let mut h: u64 = 0xcbf29ce484222325;
    for b in s.as_bytes() {
        h ^= *b as u64;
        h = h.wrapping_mul(0x100000001b3);
    }
    format!("{h:016x}")
}

pub fn replay_path(property: &str, f: &Failure) -> PathBuf {
    let key = format!("{}|{}|{}|{:?}", f.signature, f.input, f.clause, f.cfg);
    Path::new(&out_root()).join("replays").join(property).join(format!("{}.json", short_hash(&key)))
}

pub fn write_replay(property: &str, f: &Failure) -> PathBuf {
    let p = replay_path(property, f);
    let _ = std::fs::create_dir_all(p.parent().unwrap());
    let v = json!({
        "property": f.property,
        "clause": f.clause,
        "signature": f.signature,
        "input": f.input,
        "input_b64": base64::engine::general_purpose::STANDARD.encode(f.input.as_bytes()),
        "cfg": f.cfg,
        "detail": f.detail,
        "derivation": f.derivation,
        "extra": f.extra,
    });
    let _ = std::fs::write(&p, serde_json::to_string_pretty(&v).unwrap());
    p
}

/// Group failures by signature; representative = shortest input, then smallest.
pub fn group(failures: &[Failure]) -> BTreeMap<String, (Failure, usize)> {
    let mut m: BTreeMap<String, (Failure, usize)> = BTreeMap::new();
    for f in failures {
        match m.get_mut(&f.signature) {
            None => {
                m.insert(f.signature.clone(), (f.clone(), f.count.max(1)));
            }
            Some((rep, n)) => {
                *n += f.count.max(1);
                if (f.input.len(), &f.input) < (rep.input.len(), &rep.input) {
                    *rep = f.clone();
                }
            }
        }
    }
    m
}

/// Finish a run: match failures against known findings, write replay files and the evidence
/// file, print the verdict lines and return the exit code (0 / 1).
///
/// `example_still_fails` re-checks a known finding's example on the current tree.
pub fn finish(out: Outcome, example_still_fails: &dyn Fn(&KnownFinding) -> bool) -> i32 {
    let kf = KnownFindings::load();
    let open = kf.open_for(&out.property);
    let mut live: Vec<(&KnownFinding, regex::Regex)> = vec![];
    let mut stale = vec![];
    for e in open {
        let alive = example_still_fails(e);
        if alive {
            let re = regex::Regex::new(&e.pattern).unwrap_or_else(|err| {
                eprintln!("MACHINERY: bad pattern in known finding {}: {err}", e.id);
                std::process::exit(2)
            });
            live.push((e, re));
        } else {
            stale.push(e);
        }
    }
    let groups = group(&out.failures);
    let mut known_hits: BTreeMap<String, usize> = BTreeMap::new();
    let mut violations: Vec<(&String, &(Failure, usize))> = vec![];
    for (sig, g) in &groups {
        let mut matched = false;
        for (e, re) in &live {
            if !e.pattern.is_empty() && re.is_match(sig) {
                *known_hits.entry(e.id.clone()).or_default() += g.1;
                matched = true;
                break;
            }
        }
        if !matched {
            violations.push((sig, g));
        }
    }
    for (e, _) in &live {
        let hits = known_hits.get(&e.id).copied().unwrap_or(0);
        println!(
            "KNOWN-FINDING: property={} {} [{}]: {} (matched {} failing case(s) in this run; example re-checked: still fails)",
            out.property, e.id, e.class, e.what_fails, hits
        );
    }
    for e in &stale {
        println!(
            "NOTE: known finding {} of {} no longer reproduces on this tree (its example passes); it suppresses nothing",
            e.id, out.property
        );
    }
    let mut vio_records = vec![];
    let max_lines = 60;
    for (i, (sig, (f, n))) in violations.iter().enumerate() {
        let p = write_replay(&out.property, f);
        if i < max_lines {
            println!("VIOLATION property={} replay={}", out.property, p.display());
            println!(
                "  clause={} signature={} cases={} cfg={} input={}",
                f.clause,
                sig,
                n,
                f.cfg.as_ref().map(|c| c.show()).unwrap_or_default(),
                esc(&f.input)
            );
            println!("  detail: {}", esc(&f.detail).chars().take(600).collect::<String>());
        }
        vio_records.push(json!({"signature": sig, "clause": f.clause, "cases": n, "input": f.input, "cfg": f.cfg, "replay": p.display().to_string()}));
    }
    if violations.len() > max_lines {
        println!("  ... {} more violation signatures (replay files written)", violations.len() - max_lines);
    }

    // evidence
    let c = &out.coverage;
    let mut cov = serde_json::Map::new();
    cov.insert("states".into(), json!(c.states.max(1)));
    cov.insert("transitions".into(), json!(c.transitions.max(1)));
    cov.insert("traces_validated_against_impl".into(), json!(c.transitions));
    cov.insert("evaluations".into(), json!(c.evaluations));
    cov.insert("distinct_nontrivial".into(), json!(c.distinct_nontrivial));
    cov.insert("rule".into(), json!(c.rule));
    cov.insert("samples".into(), json!(c.samples));
    cov.insert("exhaustive".into(), json!(c.exhaustive));
    cov.insert("completed_levels".into(), json!(c.completed_levels));
    if let Some(l) = &c.incomplete_level {
        cov.insert("stopped_in_level".into(), json!(l));
    }
    cov.insert(
        "known_findings_seen".into(),
        json!(live.iter().map(|(e, _)| json!({"id": e.id, "cases": known_hits.get(&e.id).copied().unwrap_or(0)})).collect::<Vec<_>>()),
    );
    cov.insert("failing_cases_total".into(), json!(out.failures.iter().map(|f| f.count.max(1)).sum::<usize>()));
    cov.insert("failure_signatures".into(), json!(groups.len()));
    cov.insert("violation_records".into(), json!(vio_records.iter().take(50).collect::<Vec<_>>()));
    for (k, v) in &c.extra {
        cov.insert(k.clone(), v.clone());
    }
    let ev = json!({
        "property_id": out.property,
        "tier": out.tier,
        "seed": out.seed as i64,
        "level": "model_checking",
        "coverage": Value::Object(cov),
        "assumptions": out.assumptions,
        "wall_s": out.wall_s,
        "violations": violations.len(),
    });
    let evdir = Path::new(&out_root()).join("evidence");
    let _ = std::fs::create_dir_all(&evdir);
    let evp = evdir.join(format!("{}.json", out.property));
    if let Err(e) = std::fs::write(&evp, serde_json::to_string_pretty(&ev).unwrap()) {
        eprintln!("MACHINERY: cannot write evidence {}: {e}", evp.display());
        return 2;
    }
    println!(
        "{} {}: states={} transitions={} evaluations={} distinct_nontrivial={} exhaustive={} failing_cases={} signatures={} known={} violations={} wall={:.1}s",
        out.property,
        out.tier,
        c.states,
        c.transitions,
        c.evaluations,
        c.distinct_nontrivial,
        c.exhaustive,
        out.failures.iter().map(|f| f.count.max(1)).sum::<usize>(),
        groups.len(),
        groups.len() - violations.len(),
        violations.len(),
        out.wall_s
    );
    if violations.is_empty() {
        0
    } else {
        1
    }
}

/// Triage output: failure signatures with counts and one example each (never writes known_findings.json).
pub fn triage(failures: &[Failure]) {
    let groups = group(failures);
    println!("== {} failing cases, {} signatures", failures.iter().map(|f| f.count.max(1)).sum::<usize>(), groups.len());
    for (sig, (f, n)) in &groups {
        println!("{n:6}  {sig}");
        println!("        input={} cfg={}", esc(&f.input), f.cfg.as_ref().map(|c| c.show()).unwrap_or_default());
        println!("        {}", esc(&f.detail).chars().take(400).collect::<String>());
    }
}
