//! Normal form N(tree) (DESIGN.md §4): an S-expression that keeps everything evaluation can see
//! and drops what Typst treats as layout. Used by C01 and C13.

use typst_syntax::ast::{Equation, Raw};
use typst_syntax::{SyntaxKind as K, SyntaxNode};

use crate::syntax::{child_mode, is_comment_like, Mode};

#[derive(Clone, Copy)]
struct Ctx {
    mode: Mode,
    /// inside the argument list of a *math* call (commas and semicolons are significant)
    math_args: bool,
    /// compare import item lists as multisets
    sort_imports: bool,
    /// drop blanks at the ends of the lines of raw text and of multi-line strings
    /// (used to classify a difference, never to accept it)
    trim_literal_lines: bool,
}

pub fn normal_form(root: &SyntaxNode, sort_imports: bool) -> String {
    normal_form_opt(root, sort_imports, false)
}

pub fn normal_form_opt(root: &SyntaxNode, sort_imports: bool, trim_literal_lines: bool) -> String {
    let mut out = String::new();
    nf(root, Ctx { mode: Mode::Markup, math_args: false, sort_imports, trim_literal_lines }, None, &mut out);
    out
}

fn trim_line_ends(t: &str) -> String {
    crate::syntax::split_lines(t).iter().map(|l| l.trim_end_matches([' ', '\t'])).collect::<Vec<_>>().join("\n")
}

fn significant<'a>(n: &'a SyntaxNode) -> impl Iterator<Item = &'a SyntaxNode> {
    n.children().filter(|c| c.kind() != K::Space && !is_comment_like(c.kind()))
}

/// Strip redundant grouping parentheses.
fn unwrap_parens(n: &SyntaxNode) -> &SyntaxNode {
    let mut cur = n;
    while cur.kind() == K::Parenthesized {
        let inner: Vec<&SyntaxNode> =
            significant(cur).filter(|c| !matches!(c.kind(), K::LeftParen | K::RightParen)).collect();
        if inner.len() == 1 {
            cur = inner[0];
        } else {
            break;
        }
    }
    cur
}

fn is_block_level(k: K) -> bool {
    matches!(k, K::ListItem | K::EnumItem | K::TermItem | K::Heading)
}

fn leaf(n: &SyntaxNode, ctx: Ctx, out: &mut String) {
    let k = n.kind();
    match k {
        K::Space => out.push('~'),
        K::Parbreak => out.push('¶'),
        K::Text if ctx.mode == Mode::Markup => {
            for (i, w) in n.text().split(' ').enumerate() {
                if i > 0 {
                    out.push('~');
                }
                if !w.is_empty() {
                    out.push_str(&format!("T:{w:?} "));
                }
            }
        }
        K::Str if ctx.trim_literal_lines => out.push_str(&format!("{:?}:{:?} ", k, trim_line_ends(n.text()))),
        _ => out.push_str(&format!("{:?}:{:?} ", k, n.text().as_str())),
    }
}

fn nf(n: &SyntaxNode, ctx: Ctx, parent: Option<K>, out: &mut String) {
    let k = n.kind();
    if n.children().len() == 0 {
        leaf(n, ctx, out);
        return;
    }
    let inner_mode = child_mode(k, ctx.mode);
    let mut c = Ctx { mode: inner_mode, ..ctx };
    let explicit_array = k == K::Array && n.children().next().is_some_and(|x| x.kind() == K::LeftParen);
    if crate::syntax::is_code_only(k) || explicit_array {
        // code embedded in math through `#`: separators are layout again
        c.mode = Mode::Code;
        c.math_args = false;
    }
    match k {
        K::Parenthesized => {
            let u = unwrap_parens(n);
            if !std::ptr::eq(u, n) {
                nf(u, Ctx { mode: Mode::Code, ..ctx }, parent, out);
                return;
            }
            generic(n, c, out);
        }
        K::Raw => {
            let r: Raw = n.cast().unwrap();
            let fence = n.children().next().map(|d| d.text().len()).unwrap_or(0);
            out.push_str(&format!(
                "(Raw block={} lang={:?} lines={:?} fence={})",
                r.block(),
                r.lang().map(|l| l.get().to_string()),
                r.lines()
                    .map(|l| if ctx.trim_literal_lines { l.get().trim_end_matches([' ', '\t']).to_string() } else { l.get().to_string() })
                    .collect::<Vec<_>>(),
                fence
            ));
        }
        K::Closure => {
            out.push_str("(Closure ");
            let kids: Vec<&SyntaxNode> = significant(n).collect();
            let last = kids.len().saturating_sub(1);
            for (i, ch) in kids.iter().enumerate() {
                let ch = if i == last { unwrap_parens(ch) } else { ch };
                if i == last && ch.kind() == K::CodeBlock {
                    if let Some(code) = ch.children().find(|x| x.kind() == K::Code) {
                        let exprs: Vec<&SyntaxNode> =
                            significant(code).filter(|x| x.kind() != K::Semicolon).collect();
                        if exprs.len() == 1 {
                            nf(exprs[0], Ctx { mode: Mode::Code, ..c }, Some(K::Closure), out);
                            continue;
                        }
                    }
                }
                nf(ch, Ctx { mode: Mode::Code, ..c }, Some(K::Closure), out);
            }
            out.push(')');
        }
        K::FuncCall => {
            let callee = significant(n).next().unwrap();
            fn base(n: &SyntaxNode) -> K {
                if n.kind() == K::FieldAccess {
                    base(n.children().next().unwrap())
                } else {
                    n.kind()
                }
            }
            let math_call = matches!(base(callee), K::MathIdent | K::MathText);
            let m = if math_call { Mode::Math } else { Mode::Code };
            out.push_str("(FuncCall ");
            let mut first = true;
            for ch in significant(n) {
                if first {
                    first = false;
                    let u = unwrap_parens(ch);
                    if !std::ptr::eq(u, ch) && u.kind() == K::FieldAccess {
                        // (a.b)(c) calls the value of field b; a.b(c) is a method call
                        out.push_str("(ParenCallee ");
                        nf(u, Ctx { mode: m, ..c }, Some(k), out);
                        out.push(')');
                        continue;
                    }
                }
                nf(ch, Ctx { mode: m, ..c }, Some(k), out);
            }
            out.push(')');
        }
        K::Args => {
            if ctx.mode == Mode::Math {
                c.math_args = true;
            } else {
                c.math_args = false;
            }
            generic(n, c, out);
        }
        K::Equation => {
            let e: Equation = n.cast().unwrap();
            out.push_str(&format!("(Equation block={} ", e.block()));
            for ch in significant(n) {
                if ch.kind() == K::Dollar {
                    continue;
                }
                nf(ch, Ctx { mode: Mode::Math, math_args: false, ..c }, Some(k), out);
            }
            out.push(')');
        }
        K::Markup => {
            out.push_str("(Markup ");
            // drop comments, merge the whitespace runs left around them
            let mut items: Vec<&SyntaxNode> = vec![];
            for ch in n.children() {
                if is_comment_like(ch.kind()) {
                    continue;
                }
                if ch.kind() == K::Space {
                    if let Some(last) = items.last() {
                        if matches!(last.kind(), K::Space | K::Parbreak) {
                            continue;
                        }
                    }
                }
                if ch.kind() == K::Semicolon {
                    // a Semicolon in markup terminates embedded code; whitespace before it was
                    // skipped in code mode and is not markup content
                    while items.last().is_some_and(|l| l.kind() == K::Space) {
                        items.pop();
                    }
                }
                if ch.kind() == K::Label && items.len() >= 2 && items[items.len() - 1].kind() == K::Space && is_block_level(items[items.len() - 2].kind()) {
                    // a label attaches to the element before it; a blank between a heading (or
                    // another block-level element, which ends at the line end anyway) and the
                    // label is not content
                    items.pop();
                }
                if ch.kind() == K::Parbreak {
                    if let Some(last) = items.last() {
                        if last.kind() == K::Space {
                            items.pop();
                        } else if last.kind() == K::Parbreak {
                            continue;
                        }
                    }
                }
                items.push(ch);
            }
            let edge_sensitive = matches!(parent, Some(K::ContentBlock) | Some(K::Strong) | Some(K::Emph));
            let mut lead = false;
            let mut trail = false;
            while items.first().is_some_and(|c| c.kind() == K::Space) {
                items.remove(0);
                lead = true;
            }
            while items.last().is_some_and(|c| c.kind() == K::Space) {
                items.pop();
                trail = true;
            }
            if !edge_sensitive {
                // document, heading, list/enum/term item: Typst ignores the edges altogether
                while items.first().is_some_and(|c| matches!(c.kind(), K::Space | K::Parbreak)) {
                    items.remove(0);
                }
                while items.last().is_some_and(|c| matches!(c.kind(), K::Space | K::Parbreak)) {
                    items.pop();
                }
                lead = false;
                trail = false;
            }
            if items.is_empty() {
                if lead || trail {
                    out.push('~');
                }
            } else {
                if lead && !is_block_level(items[0].kind()) && items[0].kind() != K::Parbreak {
                    out.push('~');
                }
                let n_items = items.len();
                for ch in &items {
                    nf(ch, Ctx { mode: Mode::Markup, math_args: false, ..c }, Some(k), out);
                }
                let lastk = items[n_items - 1].kind();
                if trail && !is_block_level(lastk) && lastk != K::Parbreak {
                    out.push('~');
                }
            }
            out.push(')');
        }
        K::Math | K::MathDelimited => {
            out.push_str(&format!("({k:?} "));
            let mut prev_space = false;
            for ch in n.children() {
                if is_comment_like(ch.kind()) {
                    continue;
                }
                if ch.kind() == K::Space {
                    if prev_space {
                        continue;
                    }
                    prev_space = true;
                } else {
                    prev_space = false;
                }
                nf(ch, Ctx { mode: Mode::Math, math_args: false, ..c }, Some(k), out);
            }
            out.push(')');
        }
        K::ImportItems if ctx.sort_imports => {
            out.push_str("(ImportItems ");
            let mut parts: Vec<String> = vec![];
            for ch in significant(n) {
                if matches!(ch.kind(), K::Comma | K::LeftParen | K::RightParen) {
                    continue;
                }
                let mut s = String::new();
                nf(ch, c, Some(k), &mut s);
                parts.push(s);
            }
            parts.sort();
            for p in parts {
                out.push_str(&p);
            }
            out.push(')');
        }
        _ => generic(n, c, out),
    }
}

fn generic(n: &SyntaxNode, c: Ctx, out: &mut String) {
    let k = n.kind();
    out.push_str(&format!("({k:?} "));
    for ch in n.children() {
        let ck = ch.kind();
        if is_comment_like(ck) || ck == K::Space {
            continue;
        }
        let sep = matches!(ck, K::Comma | K::Semicolon);
        if sep && c.math_args {
            leaf(ch, c, out);
            continue;
        }
        if sep
            || matches!(
                ck,
                K::LeftParen | K::RightParen | K::LeftBrace | K::RightBrace | K::LeftBracket | K::RightBracket | K::Colon
            )
        {
            // delimiters and separators carry no meaning beyond the node kind and child order,
            // except in math-mode nodes where parens are atoms (handled by Math/MathDelimited)
            if c.mode == Mode::Math && !c.math_args && !matches!(k, K::Args | K::Named | K::Array | K::Spread) {
                leaf(ch, c, out);
            }
            continue;
        }
        nf(ch, c, Some(k), out);
    }
    out.push(')');
}

/// First position at which two normal forms differ, with a little context.
pub fn diff(a: &str, b: &str) -> String {
    let ac: Vec<char> = a.chars().collect();
    let bc: Vec<char> = b.chars().collect();
    let mut i = 0;
    while i < ac.len() && i < bc.len() && ac[i] == bc[i] {
        i += 1;
    }
    let lo = i.saturating_sub(60);
    let ctx_a: String = ac[lo..(i + 60).min(ac.len())].iter().collect();
    let ctx_b: String = bc[lo..(i + 60).min(bc.len())].iter().collect();
    format!("normal forms differ at char {i}: input …{ctx_a}… vs output …{ctx_b}…")
}
