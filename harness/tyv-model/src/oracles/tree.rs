//! C01: formatting preserves the syntax tree up to layout (normal form equality).

use typst_syntax::SyntaxNode;

use crate::nf;
use crate::subject::{Cfg, Subject};
use crate::sweep::{Checker, Fail, Oracle};
use crate::syntax::{self, esc};

pub struct C01;

impl Oracle for C01 {
    fn property(&self) -> &'static str {
        "C01"
    }
    fn for_input<'a>(&'a self, _input: &'a str, src: &'a SyntaxNode, _subject: &'a dyn Subject) -> Checker<'a> {
        let nf_plain = nf::normal_form(src, false);
        let mut nf_sorted: Option<String> = None;
        Box::new(move |cfg: &Cfg, out: &str| {
            let o = syntax::parse(out);
            if o.erroneous() {
                // unparseable output is C04's clause; not double-counted here
                return vec![];
            }
            let (a, b) = if cfg.reorder {
                let a = nf_sorted.get_or_insert_with(|| nf::normal_form(src, true)).clone();
                (a, nf::normal_form(&o, true))
            } else {
                (nf_plain.clone(), nf::normal_form(&o, false))
            };
            if a != b {
                // classify: does the difference consist only of blanks at line ends inside raw text /
                // multi-line strings (stripped by the post-processing pass)?
                let ta = nf::normal_form_opt(src, cfg.reorder, true);
                let tb = nf::normal_form_opt(&o, cfg.reorder, true);
                let clause = if ta == tb { "literal-line-trailing-blanks" } else { "tree" };
                vec![Fail::new(clause, format!("output {} :: {}", esc(out), nf::diff(&a, &b)))]
            } else {
                vec![]
            }
        })
    }
    fn rule(&self) -> String {
        "every well-formed candidate x every configuration; each distinct output is re-parsed and its normal form N (DESIGN.md section 4: node kinds, child order, leaf texts; layout whitespace, comments, optional separators, redundant parentheses/braces dropped) must equal N(input). Non-trivial = distinct well-formed input with a deviation or whose output differs from the input".into()
    }
}
