//! C07 ('@typstyle off' reproduces the next node verbatim) and C12 (indent unit).

use std::collections::HashSet;

use typst_syntax::ast::Expr;
use typst_syntax::{LinkedNode, SyntaxKind as K, SyntaxNode};

use crate::subject::{Cfg, Subject};
use crate::sweep::{Checker, Fail, Oracle};
use crate::syntax::{self, esc, is_comment, split_lines};

const DIRECTIVE: &str = "@typstyle off";

// ------------------------------------------------------------------------------------------ C07

#[derive(Debug, Clone)]
pub struct Directive {
    /// byte offset of the end of the directive comment
    pub comment_end: usize,
    /// source text of the node the guarantee applies to (None: no guarantee at this position)
    pub payload: Option<String>,
    pub payload_kind: Option<K>,
}

/// All directive comments of a tree in source order, each with the node it protects (if the
/// property gives a guarantee there: next sibling, ignoring Space and Hash, is an expression,
/// a Code body or a Math body).
pub fn directives(root: &SyntaxNode) -> Vec<Directive> {
    fn walk(n: &LinkedNode, out: &mut Vec<Directive>) {
        let kids: Vec<LinkedNode> = n.children().collect();
        for (i, c) in kids.iter().enumerate() {
            if is_comment(c.kind()) && c.text().contains(DIRECTIVE) {
                let mut payload = None;
                let mut payload_kind = None;
                for s in &kids[i + 1..] {
                    if matches!(s.kind(), K::Space | K::Hash) {
                        continue;
                    }
                    let guaranteed = s.get().cast::<Expr>().is_some() || matches!(s.kind(), K::Code | K::Math);
                    // whitespace-like expression nodes carry no text to preserve
                    let trivial = matches!(s.kind(), K::Space | K::Parbreak) || is_comment(s.kind());
                    if guaranteed && !trivial {
                        payload = Some(s.get().clone().into_text().to_string());
                        payload_kind = Some(s.kind());
                    }
                    break;
                }
                out.push(Directive { comment_end: c.range().end, payload, payload_kind });
            }
            walk(c, out);
        }
    }
    let mut out = vec![];
    walk(&LinkedNode::new(root), &mut out);
    out.sort_by_key(|d| d.comment_end);
    out
}

fn trim_line_ends(t: &str) -> String {
    split_lines(t).iter().map(|l| l.trim_end_matches([' ', '\t'])).collect::<Vec<_>>().join("\n")
}

pub struct C07;

impl Oracle for C07 {
    fn property(&self) -> &'static str {
        "C07"
    }
    fn admits(&self, input: &str, src: &SyntaxNode) -> bool {
        input.contains(DIRECTIVE) && directives(src).iter().any(|d| d.payload.is_some())
    }
    fn for_input<'a>(&'a self, _input: &'a str, src: &'a SyntaxNode, _subject: &'a dyn Subject) -> Checker<'a> {
        let din = directives(src);
        Box::new(move |_cfg: &Cfg, out: &str| {
            let o = syntax::parse(out);
            let dout = directives(&o);
            if dout.len() != din.len() {
                return vec![Fail::new(
                    "directive-lost",
                    format!("output {} :: {} directive comments in input, {} in output", esc(out), din.len(), dout.len()),
                )];
            }
            for (i, (a, b)) in din.iter().zip(&dout).enumerate() {
                let Some(payload) = &a.payload else { continue };
                let want = trim_line_ends(payload);
                // text after the directive in the output: skip whitespace, '#', at most one added
                // optional delimiter and the whitespace after it
                let rest = trim_line_ends(&out[b.comment_end..]);
                let skip_blank = |s: &str| s.trim_start_matches(|c: char| c.is_whitespace()).to_string();
                // the payload itself may start with '#' (a Math body such as `#g(a)`), so try both
                let r_plain = skip_blank(&rest);
                let r_hash = skip_blank(r_plain.trim_start_matches('#'));
                let r0 = r_plain.clone();
                let mut ok = false;
                for r in [&r_plain, &r_hash] {
                    if r.starts_with(&want) {
                        ok = true;
                    }
                    for d in ['(', '{'] {
                        if let Some(r1) = r.strip_prefix(d) {
                            if skip_blank(r1).starts_with(&want) {
                                ok = true;
                            }
                        }
                    }
                }
                if !ok {
                    return vec![Fail::new(
                        &format!("not-verbatim:{:?}", a.payload_kind.unwrap()),
                        format!(
                            "output {} :: directive #{i}: node {} does not follow the directive verbatim (found {})",
                            esc(out),
                            esc(&want),
                            esc(&r0.chars().take(want.chars().count() + 12).collect::<String>())
                        ),
                    )];
                }
            }
            vec![]
        })
    }
    fn rule(&self) -> String {
        "every candidate with an '@typstyle off' comment (block and line form) at every gap of every skeleton, whose next sibling (ignoring Space and '#') is an expression, a Code body or a Math body, x payload alphabet of badly formatted nodes x every configuration; the directive must be kept and the sibling's source text, modulo blanks at line ends, must follow it character for character in each distinct output".into()
    }
}

// ------------------------------------------------------------------------------------------ C12

/// 0-based numbers of the lines whose indentation is copied from the source: lines that begin
/// inside a block comment, a string, raw text, or a node protected by '@typstyle off'.
pub fn exempt_lines(root: &SyntaxNode, text: &str) -> HashSet<usize> {
    fn mark(text: &str, r: std::ops::Range<usize>, ex: &mut HashSet<usize>) {
        let start_line = syntax::count_nl(&text[..r.start]);
        let nl = syntax::count_nl(&text[r]);
        for i in 1..=nl {
            ex.insert(start_line + i);
        }
    }
    fn walk(n: &LinkedNode, text: &str, ex: &mut HashSet<usize>) {
        let k = n.kind();
        if matches!(k, K::BlockComment | K::Str | K::Raw) {
            mark(text, n.range(), ex);
            return;
        }
        let mut disable = false;
        for c in n.children() {
            let ck = c.kind();
            if is_comment(ck) {
                if c.text().contains(DIRECTIVE) {
                    disable = true;
                }
                if ck == K::BlockComment {
                    mark(text, c.range(), ex);
                }
                continue;
            }
            if disable && !matches!(ck, K::Space | K::Hash) {
                mark(text, c.range(), ex);
                disable = false;
                continue;
            }
            walk(&c, text, ex);
        }
    }
    let mut ex = HashSet::new();
    walk(&LinkedNode::new(root), text, &mut ex);
    ex
}

fn indent_of(l: &str) -> usize {
    l.len() - l.trim_start_matches(' ').len()
}

pub struct C12;

pub const C12_HUGE_MIN: usize = 5_000;

impl Oracle for C12 {
    fn property(&self) -> &'static str {
        "C12"
    }
    fn per_config(&self) -> bool {
        true
    }
    fn for_input<'a>(&'a self, _input: &'a str, _src: &'a SyntaxNode, _subject: &'a dyn Subject) -> Checker<'a> {
        // reference: the first no-wrap output seen (smallest unit of the policy)
        let mut reference: Option<(usize, String, HashSet<usize>)> = None;
        Box::new(move |cfg: &Cfg, out: &str| {
            let t = cfg.tab_spaces;
            if t == 0 {
                return vec![];
            }
            let o = syntax::parse(out);
            if o.erroneous() {
                return vec![];
            }
            let ex = exempt_lines(&o, out);
            let lines: Vec<&str> = out.split('\n').collect();
            // clause 1: every produced line is indented by a multiple of the unit
            for (i, l) in lines.iter().enumerate() {
                if ex.contains(&i) || l.trim().is_empty() {
                    continue;
                }
                if indent_of(l) % t != 0 {
                    return vec![Fail::new(
                        "not-multiple-of-unit",
                        format!("output {} :: line {} is indented by {} with unit {}", esc(out), i + 1, indent_of(l), t),
                    )];
                }
            }
            if cfg.max_width < C12_HUGE_MIN {
                return vec![];
            }
            // clause 2: at a no-wrap width outputs for two units differ only by the ratio of the units
            match &reference {
                None => {
                    reference = Some((t, out.to_string(), ex));
                    vec![]
                }
                Some((t0, ref_out, ref_ex)) => {
                    let rl: Vec<&str> = ref_out.split('\n').collect();
                    if rl.len() != lines.len() {
                        return vec![Fail::new(
                            "unit-dependent-layout",
                            format!("{} lines with unit {}, {} lines with unit {}: {} vs {}", rl.len(), t0, lines.len(), t, esc(ref_out), esc(out)),
                        )];
                    }
                    for (i, (a, b)) in rl.iter().zip(&lines).enumerate() {
                        if ref_ex.contains(&i) || ex.contains(&i) {
                            continue;
                        }
                        let (ia, ib) = (indent_of(a), indent_of(b));
                        if a.trim_start_matches(' ') != b.trim_start_matches(' ') {
                            return vec![Fail::new(
                                "unit-dependent-layout",
                                format!("line {} differs beyond indentation: {} (unit {}) vs {} (unit {})", i + 1, esc(a), t0, esc(b), t),
                            )];
                        }
                        if ia % t0 != 0 || ib != ia / t0 * t {
                            return vec![Fail::new(
                                "indent-not-proportional",
                                format!("line {}: indent {} with unit {} but {} with unit {}: {} vs {}", i + 1, ia, t0, ib, t, esc(ref_out), esc(out)),
                            )];
                        }
                    }
                    vec![]
                }
            }
        })
    }
    fn rule(&self) -> String {
        "every well-formed candidate (0 and 1 line-break-like deviations) at a width beyond any possible line x tab_spaces 1..=8: same lines, indentation = k*unit with the same k for every unit (all 28 pairs follow from comparison with the smallest unit); plus all widths x units {3,5,7}: every produced line indented by a multiple of the unit. Lines starting inside block comments, strings, raw text and '@typstyle off' nodes are exempt (computed from the output's own tree)".into()
    }
}
