//! C06 (comments), C10 (literals): token census of input tree vs output tree.

use typst_syntax::ast::Raw;
use typst_syntax::{SyntaxKind as K, SyntaxNode};

use crate::subject::{Cfg, Subject};
use crate::sweep::{Checker, Fail, Oracle};
use crate::syntax::{self, esc, is_comment_like, is_word, split_lines};

// ------------------------------------------------------------------------------------------ C06

#[derive(Debug, Clone, PartialEq, Eq)]
pub struct CommentRec {
    pub line_comment: bool,
    pub text: String,
    /// number of word tokens that precede the comment in the leaf linearisation
    pub words_before: usize,
}

fn norm_comment(k: K, t: &str) -> String {
    if k == K::BlockComment {
        split_lines(t).iter().map(|x| x.trim()).collect::<Vec<_>>().join("\n")
    } else {
        t.trim_end().to_string()
    }
}

/// Comments with their position in the word sequence. A `Raw` node counts as one word;
/// a markup `Text` leaf counts one per blank-separated word.
pub fn comments(root: &SyntaxNode) -> Vec<CommentRec> {
    fn walk(n: &SyntaxNode, words: &mut usize, out: &mut Vec<CommentRec>) {
        let k = n.kind();
        if k == K::Raw {
            *words += 1;
            return;
        }
        if n.children().len() == 0 {
            if is_comment_like(k) {
                out.push(CommentRec { line_comment: k != K::BlockComment, text: norm_comment(k, n.text()), words_before: *words });
            } else if k == K::Text {
                *words += n.text().split_whitespace().count();
            } else if is_word(k) && !n.text().is_empty() {
                *words += 1;
            }
            return;
        }
        for c in n.children() {
            walk(c, words, out);
        }
    }
    let mut out = vec![];
    let mut w = 0;
    walk(root, &mut w, &mut out);
    out
}

pub fn compare_comments(a: &[CommentRec], b: &[CommentRec]) -> Option<Fail> {
    let show = |v: &[CommentRec]| v.iter().map(|c| format!("{}@{}", esc(&c.text), c.words_before)).collect::<Vec<_>>().join(" | ");
    if a == b {
        return None;
    }
    let ta: Vec<&String> = a.iter().map(|c| &c.text).collect();
    let tb: Vec<&String> = b.iter().map(|c| &c.text).collect();
    let clause = if ta == tb {
        if a.iter().zip(b).all(|(x, y)| x.line_comment == y.line_comment) {
            "moved-across-word"
        } else {
            "kind-changed"
        }
    } else {
        let mut sa = ta.clone();
        let mut sb = tb.clone();
        sa.sort();
        sb.sort();
        if sa == sb {
            "reordered"
        } else if b.len() < a.len() && tb.iter().all(|t| ta.contains(t)) {
            "lost"
        } else if b.len() > a.len() && ta.iter().all(|t| tb.contains(t)) {
            "duplicated"
        } else {
            "reworded"
        }
    };
    Some(Fail::new(clause, format!("comments in: [{}] out: [{}]", show(a), show(b))))
}

pub struct C06;

impl Oracle for C06 {
    fn property(&self) -> &'static str {
        "C06"
    }
    fn admits(&self, _input: &str, src: &SyntaxNode) -> bool {
        !comments(src).is_empty()
    }
    fn for_input<'a>(&'a self, _input: &'a str, src: &'a SyntaxNode, _subject: &'a dyn Subject) -> Checker<'a> {
        let cin = comments(src);
        Box::new(move |_cfg: &Cfg, out: &str| {
            let o = syntax::parse(out);
            // an unparseable output has no reliable comment census; still compare: a comment that swallowed
            // code shows up as reworded / lost even then
            let cout = comments(&o);
            match compare_comments(&cin, &cout) {
                Some(mut f) => {
                    f.detail = format!("output {} :: {}", esc(out), f.detail);
                    vec![f]
                }
                None => vec![],
            }
        })
    }
    fn rule(&self) -> String {
        "every well-formed candidate that contains at least one comment x every configuration; the comment census (kind, text modulo continuation-line indentation and trailing blanks, number of preceding word tokens) of each distinct output must equal the input's. Non-trivial = distinct admitted input (all carry a comment deviation)".into()
    }
}

// ------------------------------------------------------------------------------------------ C10

#[derive(Debug, Clone, PartialEq, Eq, PartialOrd, Ord)]
pub struct Lit {
    pub kind: String,
    pub text: String,
}

pub fn literals(root: &SyntaxNode, trim_line_ends: bool) -> Vec<Lit> {
    fn trim(t: &str) -> String {
        split_lines(t).iter().map(|l| l.trim_end_matches([' ', '\t'])).collect::<Vec<_>>().join("\n")
    }
    fn walk(n: &SyntaxNode, trim_ends: bool, out: &mut Vec<Lit>) {
        let k = n.kind();
        if k == K::Raw {
            let r: Raw = n.cast().unwrap();
            let fence = n.children().next().map(|d| d.text().len()).unwrap_or(0);
            let lines: Vec<String> =
                r.lines().map(|l| if trim_ends { l.get().trim_end_matches([' ', '\t']).to_string() } else { l.get().to_string() }).collect();
            out.push(Lit {
                kind: "Raw".into(),
                text: format!("block={} lang={:?} fence={} lines={:?}", r.block(), r.lang().map(|l| l.get().to_string()), fence, lines),
            });
            return;
        }
        if n.children().len() == 0 {
            if matches!(
                k,
                K::Str | K::Int | K::Float | K::Numeric | K::Ident | K::MathIdent | K::Label | K::RefMarker | K::Link | K::Escape | K::Bool
            ) {
                let t = if trim_ends && k == K::Str { trim(n.text()) } else { n.text().to_string() };
                out.push(Lit { kind: format!("{k:?}"), text: t });
            }
            return;
        }
        for c in n.children() {
            walk(c, trim_ends, out);
        }
    }
    let mut out = vec![];
    walk(root, trim_line_ends, &mut out);
    out
}

pub struct C10;

impl Oracle for C10 {
    fn property(&self) -> &'static str {
        "C10"
    }
    fn for_input<'a>(&'a self, _input: &'a str, src: &'a SyntaxNode, _subject: &'a dyn Subject) -> Checker<'a> {
        let lin = literals(src, false);
        Box::new(move |cfg: &Cfg, out: &str| {
            let o = syntax::parse(out);
            let mut lout = literals(&o, false);
            let mut lin2 = lin.clone();
            if cfg.reorder {
                lin2.sort();
                lout.sort();
            }
            if lin2 == lout {
                return vec![];
            }
            let mut tin = literals(src, true);
            let mut tout = literals(&o, true);
            if cfg.reorder {
                tin.sort();
                tout.sort();
            }
            let clause = if tin == tout { "literal-line-trailing-blanks" } else { "literal-changed" };
            let first = lin2.iter().zip(lout.iter()).position(|(a, b)| a != b).unwrap_or(lin2.len().min(lout.len()));
            vec![Fail::new(
                clause,
                format!(
                    "output {} :: literal #{}: input {:?} vs output {:?} ({} vs {} literals)",
                    esc(out),
                    first,
                    lin2.get(first).map(|l| format!("{}:{}", l.kind, l.text)),
                    lout.get(first).map(|l| format!("{}:{}", l.kind, l.text)),
                    lin2.len(),
                    lout.len()
                ),
            )]
        })
    }
    fn rule(&self) -> String {
        "every well-formed candidate (model skeletons with literal-centred productions and the literal alphabet in every context) x every configuration; the sequence of literal tokens (Str, Int, Float, Numeric, Ident, MathIdent, Label, RefMarker, Link, Escape, Bool by kind + exact text; Raw via ast::Raw lines/lang/block + fence length) of each distinct output must equal the input's".into()
    }
}
