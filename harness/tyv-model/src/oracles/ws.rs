//! C08 (prose untouched) and C09 (whitespace in math).

use typst_syntax::ast::Equation;
use typst_syntax::{SyntaxKind as K, SyntaxNode};

use crate::subject::{Cfg, Subject};
use crate::sweep::{Checker, Fail, Oracle};
use crate::syntax::{self, count_nl, esc, is_comment_like};

#[derive(Debug, Clone, Copy, PartialEq, Eq, PartialOrd, Ord)]
pub enum Ws {
    None,
    Space,
    Line,
    Par(usize),
}

impl Ws {
    fn of(n: &SyntaxNode) -> Ws {
        match n.kind() {
            K::Parbreak => Ws::Par(count_nl(n.text())),
            _ => {
                if count_nl(n.text()) > 0 {
                    Ws::Line
                } else {
                    Ws::Space
                }
            }
        }
    }
    fn show(self) -> String {
        match self {
            Ws::None => "none".into(),
            Ws::Space => "space".into(),
            Ws::Line => "linebreak".into(),
            Ws::Par(n) => format!("parbreak({n})"),
        }
    }
}

/// A node's children as tokens with the whitespace class *before* each token.
#[derive(Debug, Clone, PartialEq, Eq)]
pub struct Seq {
    pub tokens: Vec<String>,
    /// gaps[i] = whitespace between tokens[i] and tokens[i+1]
    pub gaps: Vec<Ws>,
}

fn classify_gap_change(a: Ws, b: Ws) -> &'static str {
    match (a, b) {
        (Ws::Space, Ws::Line) => "space-to-break",
        (Ws::Line, Ws::Space) => "break-to-space",
        (Ws::None, _) => "ws-added",
        (_, Ws::None) => "ws-removed",
        (Ws::Par(_), Ws::Par(_)) => "parbreak-count",
        (Ws::Par(_), _) => "parbreak-removed",
        (_, Ws::Par(_)) => "parbreak-added",
        _ => "ws-changed",
    }
}

// ------------------------------------------------------------------------------------------ C08

/// Per Markup node (pre-order): the child sequence the prose oracle compares.
pub fn prose(root: &SyntaxNode) -> Vec<Seq> {
    fn node_seq(n: &SyntaxNode) -> Seq {
        let mut tokens: Vec<String> = vec![];
        let mut gaps: Vec<Ws> = vec![];
        let mut pending = Ws::None;
        let mut push = |tok: String, pending: &mut Ws, tokens: &mut Vec<String>, gaps: &mut Vec<Ws>| {
            if !tokens.is_empty() {
                gaps.push(*pending);
            }
            *pending = Ws::None;
            tokens.push(tok);
        };
        for c in n.children() {
            let k = c.kind();
            if is_comment_like(k) {
                continue; // C06 owns comments; whitespace around them is merged to the stronger class
            }
            match k {
                K::Space | K::Parbreak => {
                    let w = Ws::of(c);
                    if w > pending {
                        pending = w;
                    }
                }
                K::Text => {
                    let t = c.text();
                    let mut first = true;
                    for w in t.split(' ') {
                        if !first && pending < Ws::Space {
                            pending = Ws::Space;
                        }
                        first = false;
                        if w.is_empty() {
                            continue;
                        }
                        push(format!("T:{w}"), &mut pending, &mut tokens, &mut gaps);
                    }
                }
                K::Escape | K::Shorthand | K::SmartQuote | K::Link | K::Label | K::Linebreak | K::RefMarker => {
                    push(format!("{:?}:{}", k, c.text()), &mut pending, &mut tokens, &mut gaps)
                }
                K::Semicolon => {
                    // terminator of embedded code: whitespace before it is code trivia
                    pending = Ws::None;
                    push(format!("{k:?}"), &mut pending, &mut tokens, &mut gaps)
                }
                K::Strong | K::Emph | K::Heading | K::ListItem | K::EnumItem | K::TermItem | K::Raw | K::Equation | K::Ref | K::Hash => {
                    push(format!("{k:?}"), &mut pending, &mut tokens, &mut gaps)
                }
                // embedded code is one opaque token: its kind may legitimately change
                // (FuncCall -> Parenthesized when optional parentheses are added); C01 owns its inside
                _ => push("CODE".into(), &mut pending, &mut tokens, &mut gaps),
            }
        }
        Seq { tokens, gaps }
    }
    fn walk(n: &SyntaxNode, out: &mut Vec<Seq>) {
        if n.kind() == K::Markup {
            out.push(node_seq(n));
        }
        for c in n.children() {
            walk(c, out);
        }
    }
    let mut out = vec![];
    walk(root, &mut out);
    out
}

pub fn compare_seqs(a: &[Seq], b: &[Seq], what: &str) -> Option<Fail> {
    if a == b {
        return None;
    }
    if a.len() != b.len() {
        return Some(Fail::new("structure-changed", format!("{} {what} nodes in input, {} in output", a.len(), b.len())));
    }
    for (i, (x, y)) in a.iter().zip(b).enumerate() {
        if x.tokens != y.tokens {
            let j = x.tokens.iter().zip(&y.tokens).position(|(p, q)| p != q).unwrap_or(x.tokens.len().min(y.tokens.len()));
            return Some(Fail::new(
                "text-changed",
                format!("{what} node #{i}: token #{j} {:?} vs {:?}", x.tokens.get(j), y.tokens.get(j)),
            ));
        }
        if let Some(j) = x.gaps.iter().zip(&y.gaps).position(|(p, q)| p != q) {
            return Some(Fail::new(
                classify_gap_change(x.gaps[j], y.gaps[j]),
                format!(
                    "{what} node #{i}: between {} and {}: {} in input, {} in output",
                    esc(&x.tokens[j]),
                    esc(&x.tokens[j + 1]),
                    x.gaps[j].show(),
                    y.gaps[j].show()
                ),
            ));
        }
    }
    None
}

pub struct C08;

impl Oracle for C08 {
    fn property(&self) -> &'static str {
        "C08"
    }
    fn for_input<'a>(&'a self, _input: &'a str, src: &'a SyntaxNode, _subject: &'a dyn Subject) -> Checker<'a> {
        let pin = prose(src);
        Box::new(move |_cfg: &Cfg, out: &str| {
            let o = syntax::parse(out);
            if o.erroneous() {
                return vec![]; // C04's clause
            }
            let pout = prose(&o);
            match compare_seqs(&pin, &pout, "markup") {
                Some(mut f) => {
                    if f.clause == "structure-changed" {
                        // the set of markup nodes itself changed: C01's domain, not a prose edit
                        return vec![];
                    }
                    if f.clause == "text-changed" {
                        // same tokens overall, but distributed differently over the markup nodes:
                        // items were re-nested (a structure change, reported under its own clause)
                        let flat = |v: &[Seq]| v.iter().flat_map(|s| s.tokens.iter().cloned()).collect::<Vec<_>>();
                        let (mut a, mut b) = (flat(&pin), flat(&pout));
                        a.sort();
                        b.sort();
                        if a == b {
                            f.clause = "tokens-moved-between-markup-nodes".into();
                        }
                    }
                    f.detail = format!("output {} :: {}", esc(out), f.detail);
                    vec![f]
                }
                None => vec![],
            }
        })
    }
    fn rule(&self) -> String {
        "every well-formed candidate of the markup-centred model x every configuration (widths far below the line length included); per Markup node in pre-order the sequence of prose tokens (words, escapes, shorthands, quotes, links, labels, refs by exact text; structure by kind; embedded code opaque) and the whitespace class (none/space/line break/paragraph break(n)) between consecutive tokens must be equal in input and output; outer edges of each node exempt".into()
    }
}

// ------------------------------------------------------------------------------------------ C09

pub fn mathws(root: &SyntaxNode) -> (Vec<Seq>, Vec<bool>) {
    fn node_seq(n: &SyntaxNode) -> Seq {
        let mut tokens: Vec<String> = vec![];
        let mut gaps: Vec<Ws> = vec![];
        let mut pending = Ws::None;
        for c in n.children() {
            let k = c.kind();
            if is_comment_like(k) {
                continue;
            }
            if k == K::Space {
                let w = Ws::of(c);
                if w > pending {
                    pending = w;
                }
                continue;
            }
            if !tokens.is_empty() {
                gaps.push(pending);
            }
            pending = Ws::None;
            // atoms by kind (+ text for leaves, which C10/C01 also check; here it only aids alignment)
            tokens.push(format!("{k:?}"));
        }
        Seq { tokens, gaps }
    }
    fn walk(n: &SyntaxNode, out: &mut Vec<Seq>, eqs: &mut Vec<bool>) {
        if matches!(n.kind(), K::Math | K::MathDelimited) {
            out.push(node_seq(n));
        }
        if n.kind() == K::Equation {
            let e: Equation = n.cast().unwrap();
            eqs.push(e.block());
        }
        for c in n.children() {
            walk(c, out, eqs);
        }
    }
    let mut out = vec![];
    let mut eqs = vec![];
    walk(root, &mut out, &mut eqs);
    (out, eqs)
}

pub struct C09;

impl Oracle for C09 {
    fn property(&self) -> &'static str {
        "C09"
    }
    fn admits(&self, _input: &str, src: &SyntaxNode) -> bool {
        fn has_eq(n: &SyntaxNode) -> bool {
            n.kind() == K::Equation || n.children().any(has_eq)
        }
        has_eq(src)
    }
    fn for_input<'a>(&'a self, _input: &'a str, src: &'a SyntaxNode, _subject: &'a dyn Subject) -> Checker<'a> {
        let (min, ein) = mathws(src);
        Box::new(move |_cfg: &Cfg, out: &str| {
            let o = syntax::parse(out);
            if o.erroneous() {
                return vec![];
            }
            let (mout, eout) = mathws(&o);
            if ein != eout {
                if ein.len() != eout.len() {
                    return vec![]; // structure: C01
                }
                let i = ein.iter().zip(&eout).position(|(a, b)| a != b).unwrap();
                return vec![Fail::new(
                    "equation-block-flag",
                    format!("output {} :: equation #{i}: block={} in input, block={} in output", esc(out), ein[i], eout[i]),
                )];
            }
            match compare_seqs(&min, &mout, "math") {
                Some(mut f) => {
                    if f.clause == "structure-changed" || f.clause == "text-changed" {
                        return vec![]; // atoms themselves changed: C01's domain
                    }
                    f.detail = format!("output {} :: {}", esc(out), f.detail);
                    vec![f]
                }
                None => vec![],
            }
        })
    }
    fn rule(&self) -> String {
        "every well-formed candidate of the math-centred model that contains an equation x every configuration; per Math / MathDelimited node in pre-order the whitespace class (none/space/line break) between consecutive non-space children must be equal in input and output, and every equation keeps its block/inline flag; children of a math call's Args and the operator gaps of attach/frac/root are exempt (they are not children of Math/MathDelimited nodes)".into()
    }
}
