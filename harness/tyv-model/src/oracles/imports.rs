//! C19: import items are reordered only on request, and then only permuted.

use std::ops::Range;

use typst_syntax::{LinkedNode, SyntaxKind as K, SyntaxNode};

use crate::subject::{Cfg, Subject};
use crate::sweep::{Checker, Fail, Oracle};
use crate::syntax::{self, esc, is_comment, is_comment_like};

#[derive(Debug, Clone)]
pub struct ImportInfo {
    /// (byte range, normalised text, bound name) of each item in source order
    pub items: Vec<(Range<usize>, String, String)>,
    pub has_comment: bool,
}

fn norm_item(n: &SyntaxNode) -> String {
    fn walk(n: &SyntaxNode, out: &mut Vec<String>) {
        if n.children().len() == 0 {
            if n.kind() != K::Space && !is_comment_like(n.kind()) && !n.text().is_empty() {
                out.push(n.text().to_string());
            }
        } else {
            for c in n.children() {
                walk(c, out);
            }
        }
    }
    let mut v = vec![];
    walk(n, &mut v);
    v.join(" ")
}

fn bound_name(n: &SyntaxNode) -> String {
    // last identifier of the item: the new name of a renamed item, else the last path component
    fn idents(n: &SyntaxNode, out: &mut Vec<String>) {
        if n.kind() == K::Ident {
            out.push(n.text().to_string());
        }
        for c in n.children() {
            idents(c, out);
        }
    }
    let mut v = vec![];
    idents(n, &mut v);
    v.last().cloned().unwrap_or_default()
}

pub fn imports(root: &SyntaxNode) -> Vec<ImportInfo> {
    fn has_comment(n: &SyntaxNode) -> bool {
        is_comment(n.kind()) || n.children().any(has_comment)
    }
    fn walk(n: &LinkedNode, out: &mut Vec<ImportInfo>) {
        if n.kind() == K::ModuleImport {
            let mut items = vec![];
            // comments anywhere from the first item delimiter on (inside parentheses or between items)
            let mut cmt = false;
            let mut in_items = false;
            for c in n.children() {
                if matches!(c.kind(), K::LeftParen | K::ImportItems) {
                    in_items = true;
                }
                if in_items && has_comment(c.get()) {
                    cmt = true;
                }
                if c.kind() == K::ImportItems {
                    for it in c.children() {
                        if matches!(it.kind(), K::ImportItemPath | K::RenamedImportItem) {
                            items.push((it.range(), norm_item(it.get()), bound_name(it.get())));
                        }
                    }
                }
            }
            out.push(ImportInfo { items, has_comment: cmt });
        }
        for c in n.children() {
            walk(&c, out);
        }
    }
    let mut out = vec![];
    walk(&LinkedNode::new(root), &mut out);
    out
}

/// Rebuild `text` with the items of each import replaced, range by range, by the items in the
/// given order (`orders[i]` = indices into the i-th import's items).
pub fn permute(text: &str, infos: &[ImportInfo], orders: &[Vec<usize>]) -> String {
    let mut repl: Vec<(Range<usize>, String)> = vec![];
    for (info, order) in infos.iter().zip(orders) {
        for (slot, &src_idx) in order.iter().enumerate() {
            let r = info.items[slot].0.clone();
            let src_r = info.items[src_idx].0.clone();
            repl.push((r, text[src_r].to_string()));
        }
    }
    repl.sort_by_key(|r| r.0.start);
    let mut out = String::new();
    let mut pos = 0;
    for (r, t) in repl {
        out.push_str(&text[pos..r.start]);
        out.push_str(&t);
        pos = r.end;
    }
    out.push_str(&text[pos..]);
    out
}

fn order_of(out_items: &[String], in_items: &[String]) -> Option<Vec<usize>> {
    // map each output item to an unused input item with the same normalised text
    let mut used = vec![false; in_items.len()];
    let mut order = vec![];
    for o in out_items {
        let mut found = None;
        for (i, x) in in_items.iter().enumerate() {
            if !used[i] && x == o {
                found = Some(i);
                break;
            }
        }
        let i = found?;
        used[i] = true;
        order.push(i);
    }
    if used.iter().all(|u| *u) {
        Some(order)
    } else {
        None
    }
}

pub struct C19;

impl Oracle for C19 {
    fn property(&self) -> &'static str {
        "C19"
    }
    fn per_config(&self) -> bool {
        true
    }
    fn admits(&self, input: &str, src: &SyntaxNode) -> bool {
        // an import protected by '@typstyle off' is reproduced verbatim (C07) and therefore
        // legitimately keeps its order with reordering on; such inputs are outside this property
        !input.contains("@typstyle off") && !imports(src).is_empty()
    }
    fn for_input<'a>(&'a self, input: &'a str, src: &'a SyntaxNode, subject: &'a dyn Subject) -> Checker<'a> {
        let iin = imports(src);
        Box::new(move |cfg: &Cfg, out: &str| {
            let o = syntax::parse(out);
            if o.erroneous() {
                return vec![];
            }
            let iout = imports(&o);
            if iout.len() != iin.len() {
                return vec![]; // structure: C01
            }
            let mut orders: Vec<Vec<usize>> = vec![];
            let mut sorted_orders: Vec<Vec<usize>> = vec![];
            let mut any_free = false;
            for (k, (a, b)) in iin.iter().zip(&iout).enumerate() {
                let ain: Vec<String> = a.items.iter().map(|x| x.1.clone()).collect();
                let aout: Vec<String> = b.items.iter().map(|x| x.1.clone()).collect();
                if !cfg.reorder {
                    if ain != aout {
                        return vec![Fail::new(
                            "order-changed-without-request",
                            format!("output {} :: import #{k}: items {:?} became {:?} with reordering off", esc(out), ain, aout),
                        )];
                    }
                    continue;
                }
                let Some(order) = order_of(&aout, &ain) else {
                    return vec![Fail::new(
                        "not-a-permutation",
                        format!("output {} :: import #{k}: items {:?} became {:?}", esc(out), ain, aout),
                    )];
                };
                let mut names: Vec<&String> = a.items.iter().map(|x| &x.2).collect();
                names.sort();
                let dup = names.windows(2).any(|w| w[0] == w[1]);
                if a.has_comment || dup {
                    if ain != aout {
                        return vec![Fail::new(
                            if a.has_comment { "guard-ignored:comment" } else { "guard-ignored:duplicate-name" },
                            format!("output {} :: import #{k}: items {:?} became {:?}", esc(out), ain, aout),
                        )];
                    }
                    sorted_orders.push((0..ain.len()).collect());
                } else {
                    any_free = true;
                    let mut idx: Vec<usize> = (0..ain.len()).collect();
                    idx.sort_by(|&i, &j| ain[i].cmp(&ain[j]));
                    sorted_orders.push(idx);
                }
                orders.push(order);
            }
            if !cfg.reorder || !any_free {
                return vec![];
            }
            // differential law: F_on(x) = F_off(pi(x)), pi = the permutation observed in the output
            let permuted = permute(input, &iin, &orders);
            let off = Cfg { reorder: false, ..cfg.clone() };
            match subject.format(&permuted, &off) {
                Ok(expect) if expect == out => {}
                other => {
                    return vec![Fail::new(
                        "reorder-changes-more-than-order",
                        format!("F_on(x) = {} but F_off(permuted x = {}) = {:?}", esc(out), esc(&permuted), other.map(|s| esc(&s))),
                    )]
                }
            }
            // canonical order: the same statement with its items pre-sorted by text gives the same item order
            let presorted = permute(input, &iin, &sorted_orders);
            if let Ok(out2) = subject.format(&presorted, cfg) {
                let o2 = syntax::parse(&out2);
                let i2 = imports(&o2);
                let a: Vec<Vec<String>> = iout.iter().map(|x| x.items.iter().map(|y| y.1.clone()).collect()).collect();
                let b: Vec<Vec<String>> = i2.iter().map(|x| x.items.iter().map(|y| y.1.clone()).collect()).collect();
                if a != b {
                    return vec![Fail::new(
                        "order-not-canonical",
                        format!("F_on(x) orders items {:?} but F_on(x with items pre-sorted = {}) orders them {:?}", a, esc(&presorted), b),
                    )];
                }
            }
            vec![]
        })
    }
    fn rule(&self) -> String {
        "all import statements of the bounded alphabet (module forms x item sequences of length <= 4 over 9 items incl. duplicates/shadowing x list shapes x contexts x trivia) x reorder off/on x every width: off -> item sequence unchanged; on -> permutation, unchanged when a comment or a duplicate bound name is present, F_on(x) = F_off(x with items in the output's order), and the output order is independent of the input order (canonical). Non-trivial = distinct admitted input with >= 2 items or whose output differs".into()
    }
}
