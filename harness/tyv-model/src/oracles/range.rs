//! C13: range formatting is safe to splice.

use std::collections::HashMap;
use std::ops::Range;

use typst_syntax::{LinkedNode, SyntaxNode};

use crate::nf;
use crate::subject::{Cfg, Subject};
use crate::sweep::{Checker, Fail, Oracle};
use crate::syntax::{self, esc};

pub struct C13;

fn node_ranges(root: &SyntaxNode) -> HashMap<(usize, usize), bool> {
    // (start, end) -> some node with that range is free of errors. Several nodes can share a
    // range (a node and its only child; a zero-length error next to an empty node); the statement
    // is met when the node that was formatted can have been a clean one.
    fn walk(n: &LinkedNode, out: &mut HashMap<(usize, usize), bool>) {
        let r = n.range();
        let e = out.entry((r.start, r.end)).or_insert(false);
        *e = *e || !n.erroneous();
        for c in n.children() {
            walk(&c, out);
        }
    }
    let mut m = HashMap::new();
    walk(&LinkedNode::new(root), &mut m);
    m
}

impl Oracle for C13 {
    fn property(&self) -> &'static str {
        "C13"
    }
    fn per_config(&self) -> bool {
        true
    }
    fn wants_illformed(&self) -> bool {
        true
    }
    fn for_input<'a>(&'a self, input: &'a str, src: &'a SyntaxNode, subject: &'a dyn Subject) -> Checker<'a> {
        let len = input.len();
        let mut bounds: Vec<usize> = (0..=len).filter(|&i| input.is_char_boundary(i)).collect();
        bounds.extend([len + 1, len + 2, len + 3]);
        let mut ranges: Vec<Range<usize>> = vec![];
        for (i, &a) in bounds.iter().enumerate() {
            for &b in &bounds[i..] {
                ranges.push(a..b);
            }
        }
        let wellformed = !src.erroneous();
        let nodes = node_ranges(src);
        let nf_in = if wellformed { nf::normal_form(src, false) } else { String::new() };
        Box::new(move |cfg: &Cfg, _out: &str| {
            let results = subject.format_ranges(input, &ranges, cfg);
            let mut fails: Vec<Fail> = vec![];
            let mut add = |f: Fail, fails: &mut Vec<Fail>| {
                if !fails.iter().any(|g| g.clause == f.clause) {
                    fails.push(f);
                }
            };
            // the splice check depends only on the returned (range, text)
            let mut checked: HashMap<(usize, usize, String), ()> = HashMap::new();
            for (rq, res) in ranges.iter().zip(results) {
                match res {
                    Err(msg) => {
                        let clause = if rq.end > len { "panic:range-past-end" } else { "panic" };
                        add(Fail::new(clause, format!("format_source_range({}..{}) panicked: {}", rq.start, rq.end, msg)), &mut fails);
                    }
                    Ok(Err(_)) => {}
                    Ok(Ok((r, t))) => {
                        let what = || format!("format_source_range({}..{}) -> ({}..{}, {})", rq.start, rq.end, r.start, r.end, esc(&t));
                        if r.start > r.end || r.end > len || !input.is_char_boundary(r.start) || !input.is_char_boundary(r.end) {
                            add(Fail::new("range-out-of-bounds", what()), &mut fails);
                            continue;
                        }
                        let Some(clean) = nodes.get(&(r.start, r.end)) else {
                            add(Fail::new("not-a-node-range", what()), &mut fails);
                            continue;
                        };
                        if !clean {
                            add(Fail::new("returned-text-for-erroneous-node", what()), &mut fails);
                            continue;
                        }
                        // coverage of the requested range after trimming blanks and clamping
                        let s0 = rq.start.min(len);
                        let e0 = rq.end.min(len);
                        let slice = &input[s0..e0];
                        let te = s0 + slice.trim_end().len();
                        let ts = te - slice.trim_end().trim_start().len();
                        if ts < te && (r.start > ts || r.end < te) {
                            add(Fail::new("does-not-cover-request", format!("{} but the trimmed request is {}..{}", what(), ts, te)), &mut fails);
                            continue;
                        }
                        if !wellformed {
                            continue;
                        }
                        if checked.insert((r.start, r.end, t.clone()), ()).is_some() {
                            continue;
                        }
                        let spliced = format!("{}{}{}", &input[..r.start], t, &input[r.end..]);
                        let y = syntax::parse(&spliced);
                        if y.erroneous() {
                            let (m, off) = syntax::first_error(&y).unwrap_or_default();
                            add(
                                Fail::new("splice-has-syntax-errors", format!("{} :: spliced {} has error '{}' at {}", what(), esc(&spliced), m, off)),
                                &mut fails,
                            );
                            continue;
                        }
                        let nf_out = nf::normal_form(&y, false);
                        if nf_out != nf_in {
                            let ta = nf::normal_form_opt(src, false, true);
                            let tb = nf::normal_form_opt(&y, false, true);
                            let clause = if ta == tb { "splice-literal-line-trailing-blanks" } else { "splice-changes-tree" };
                            add(Fail::new(clause, format!("{} :: spliced {} :: {}", what(), esc(&spliced), nf::diff(&nf_in, &nf_out))), &mut fails);
                        }
                    }
                }
            }
            fails
        })
    }
    fn rule(&self) -> String {
        "every candidate of the reduced model (well-formed, and single-character damages for the refusal/no-panic part) x EVERY pair (start,end) of character boundaries with start <= end <= len+3 x {default, width 0, tab 4}: no panic; a returned range equals a node range, covers the trimmed request, belongs to an error-free node; the splice parses error-free and has the same normal form N as the source. Non-trivial = distinct candidate with a deviation / damage".into()
    }
}
