//! C03 (convergence), C04 (no syntax errors in output), C11 (output hygiene).

use typst_syntax::SyntaxNode;

use crate::subject::{Cfg, Subject};
use crate::sweep::{Checker, Fail, Oracle};
use crate::syntax::{self, esc};

pub struct C03;

impl Oracle for C03 {
    fn property(&self) -> &'static str {
        "C03"
    }
    fn per_config(&self) -> bool {
        true
    }
    fn for_input<'a>(&'a self, _input: &'a str, _src: &'a SyntaxNode, subject: &'a dyn Subject) -> Checker<'a> {
        Box::new(move |cfg: &Cfg, out: &str| {
            // a second pass is only defined when the first output is well-formed (C04 owns the other case)
            if !syntax::wellformed(out) {
                return vec![];
            }
            match subject.format(out, cfg) {
                Ok(out2) if out2 == out => vec![],
                Ok(out2) => vec![Fail::new(
                    "not-idempotent",
                    format!("F(x)={} but F(F(x))={}", esc(out), esc(&out2)),
                )],
                Err(_) => vec![Fail::new("not-idempotent", format!("second pass refused F(x)={}", esc(out)))],
            }
        })
    }
    fn rule(&self) -> String {
        "every well-formed candidate of the source model is formatted under every configuration of the policy; for each configuration F_c(F_c(x)) must equal F_c(x) byte-wise. Non-trivial = distinct well-formed input that carries at least one trivia deviation or whose output differs from the input".into()
    }
}

pub struct C04;

impl Oracle for C04 {
    fn property(&self) -> &'static str {
        "C04"
    }
    fn for_input<'a>(&'a self, _input: &'a str, _src: &'a SyntaxNode, _subject: &'a dyn Subject) -> Checker<'a> {
        Box::new(move |_cfg: &Cfg, out: &str| {
            let s = syntax::parse(out);
            if s.erroneous() {
                let (msg, off) = syntax::first_error(&s).unwrap_or_default();
                vec![Fail::new("erroneous-output", format!("output {} has syntax error '{}' at byte {}", esc(out), msg, off))]
            } else {
                vec![]
            }
        })
    }
    fn rule(&self) -> String {
        "every well-formed candidate x every configuration; each distinct output is re-parsed and must be free of syntax errors. Non-trivial = distinct well-formed input with a deviation or whose output differs from the input".into()
    }
}

pub struct C11;

pub fn hygiene(out: &str) -> Option<String> {
    if out.is_empty() {
        return Some("output is empty".into());
    }
    if !out.ends_with('\n') {
        return Some("output does not end with a line feed".into());
    }
    for (i, line) in out.split('\n').enumerate() {
        if let Some(c) = line.chars().last() {
            if c.is_whitespace() {
                return Some(format!("line {} ends with blank U+{:04X}", i + 1, c as u32));
            }
        }
    }
    None
}

impl Oracle for C11 {
    fn property(&self) -> &'static str {
        "C11"
    }
    fn for_input<'a>(&'a self, _input: &'a str, _src: &'a SyntaxNode, _subject: &'a dyn Subject) -> Checker<'a> {
        Box::new(move |_cfg: &Cfg, out: &str| match hygiene(out) {
            Some(m) => vec![Fail::new("hygiene", format!("{m}: {}", esc(out)))],
            None => vec![],
        })
    }
    fn rule(&self) -> String {
        "every well-formed candidate (plus degenerate documents) x every configuration; each distinct output must be non-empty, end with LF and have no line (split at LF) ending in a blank (char::is_whitespace, which includes CR and the other Unicode line terminators: the output uses LF line ends only)".into()
    }
}
