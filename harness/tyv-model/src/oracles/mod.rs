//! Property oracles. Each is a reference for the *statement* of a property, written against
//! typst_syntax only.

pub mod basic;
