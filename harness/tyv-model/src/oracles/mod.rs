//! Property oracles. Each is a reference for the *statement* of a property, written against
//! typst_syntax only.

pub mod basic;
pub mod census;
pub mod imports;
pub mod layout;
pub mod tree;
pub mod ws;
pub mod range;
