//! The bounded Typst source model (DESIGN.md §3): productions with typed holes, contexts,
//! atoms in three sizes, spine skeletons, and trivia deviations at parser-visible gaps.

use crate::syntax::{self, Gap};

#[derive(Clone, Copy, PartialEq, Eq, Debug, Hash)]
pub enum Sort {
    /// markup block structure (may span lines)
    B,
    /// inline markup
    M,
    /// code expression
    E,
    /// code statement
    S,
    /// pattern
    P,
    /// call argument
    A,
    /// closure parameter
    R,
    /// math item
    X,
}

impl Sort {
    fn from_char(c: char) -> Sort {
        match c {
            'B' => Sort::B,
            'M' => Sort::M,
            'E' => Sort::E,
            'S' => Sort::S,
            'P' => Sort::P,
            'A' => Sort::A,
            'R' => Sort::R,
            'X' => Sort::X,
            _ => panic!("bad sort {c}"),
        }
    }
    /// Which production sorts may fill a hole of this sort.
    pub fn accepts(self, s: Sort) -> bool {
        match self {
            Sort::B => matches!(s, Sort::B | Sort::M),
            Sort::M => s == Sort::M,
            Sort::E => s == Sort::E,
            Sort::S => matches!(s, Sort::S | Sort::E),
            Sort::P => s == Sort::P,
            Sort::A => matches!(s, Sort::A | Sort::E),
            Sort::R => matches!(s, Sort::R),
            Sort::X => s == Sort::X,
        }
    }
}

#[derive(Clone, Debug)]
pub enum Seg {
    Lit(String),
    Hole(Sort),
}

#[derive(Clone, Debug)]
pub struct Prod {
    pub name: &'static str,
    pub sort: Sort,
    pub segs: Vec<Seg>,
    pub holes: usize,
    /// deliberately ill-formatted (payload alphabet of C07); only in `Model::with_ugly`
    pub ugly: bool,
}

fn parse_tpl(t: &str) -> (Vec<Seg>, usize) {
    let mut segs = vec![];
    let mut cur = String::new();
    let mut holes = 0;
    let mut it = t.chars();
    while let Some(c) = it.next() {
        if c == '‹' {
            let s = it.next().unwrap();
            let close = it.next().unwrap();
            assert_eq!(close, '›');
            if !cur.is_empty() {
                segs.push(Seg::Lit(std::mem::take(&mut cur)));
            }
            segs.push(Seg::Hole(Sort::from_char(s)));
            holes += 1;
        } else {
            cur.push(c);
        }
    }
    if !cur.is_empty() {
        segs.push(Seg::Lit(cur));
    }
    (segs, holes)
}

macro_rules! prods {
    ($( $sort:ident $name:literal $tpl:literal ; )*) => {
        vec![ $( { let (segs, holes) = parse_tpl($tpl); Prod { name: $name, sort: Sort::$sort, segs, holes, ugly: false } } ),* ]
    };
}

/// The production alphabet. One or more productions per SyntaxKind the printer matches on.
pub fn productions() -> Vec<Prod> {
    prods! {
        // ---------------- block markup
        B "para2"        "‹M›\n‹M›";
        B "parbreak"     "‹M›\n\n‹M›";
        B "parbreak3"    "‹M›\n\n\n‹M›";
        B "heading"      "= ‹M›";
        B "heading2"     "== ‹M›\n‹M›";
        B "list1"        "- ‹M›";
        B "list2"        "- ‹M›\n- ‹M›";
        B "list_nest"    "- ‹M›\n  - ‹M›";
        B "list_nest3"   "- ‹M›\n  - ‹M›\n    - ‹M›";
        B "list_cont"    "- ‹M›\n  ‹M›";
        B "list_par"     "- ‹M›\n\n  ‹M›";
        B "list_then"    "- ‹M›\n\n‹M›";
        B "text_list"    "‹M›\n- ‹M›";
        B "enum1"        "+ ‹M›";
        B "enum_num"     "1. ‹M›\n2. ‹M›";
        B "enum_nest"    "+ ‹M›\n  + ‹M›";
        B "term1"        "/ ‹M›: ‹M›";
        B "term_nest"    "/ ‹M›: ‹M›\n  / ‹M›: ‹M›";
        B "term_cont"    "/ ‹M›: ‹M›\n  ‹M›";
        B "list_enum"    "- ‹M›\n  + ‹M›";
        // degenerate block elements: an empty term, description, item or heading
        B "term_par"     "/ ‹M›: ‹M›\n\n  ‹M›";
        B "term_no_term" "/ : ‹M›";
        B "term_no_desc" "/ ‹M›:";
        B "term_empty"   "/ :\n‹M›";
        B "list_empty"   "-\n- ‹M›";
        B "enum_empty"   "+\n+ ‹M›";
        B "list_nest_empty" "- ‹M›\n  -";
        B "heading_empty" "=\n‹M›";
        // an item that starts on the line of another item's marker: its continuation lines are
        // indented relative to its own marker, whose column depends on the width of the outer marker
        B "list_list"    "- - ‹M›\n    ‹M›";
        B "list_list3"   "- - - ‹M›\n      ‹M›\n  ‹M›";
        B "enum_wide_list" "10. - ‹M›\n      ‹M›";
        B "enum_wide_enum" "10. 1. ‹M›\n       ‹M›\n    2. ‹M›";
        B "list_enum_same" "- 1. ‹M›\n     ‹M›";
        B "term_list_same" "/ ‹M›: - ‹M›\n         ‹M›";
        // a term that ends with a backslash: the colon must not become an escape
        B "term_bs"      "/ ‹M› \\ : ‹M›";
        // ---------------- inline markup
        M "words"        "foo bar";
        M "seq_sp"       "‹M› ‹M›";
        M "seq_tight"    "‹M›‹M›";
        M "strong"       "*‹M›*";
        M "emph"         "_‹M›_";
        M "raw_inline"   "`r w`";
        M "raw_block"    "```py\nx  y\n```";
        M "raw_block1"   "```py x```";
        M "eq_inline"    "$‹X›$";
        M "eq_block"     "$ ‹X› $";
        M "eq_block_ml"  "$\n  ‹X›\n$";
        M "hash"         "#‹S›";
        M "hash_semi"    "#‹S›;";
        M "hash_text"    "#‹S› foo";
        M "text_hash"    "foo #‹S› bar";
        M "hash_hash"    "#‹E›#‹E›";
        M "hash_tight"   "#‹E›foo";
        M "label"        "foo <lab>";
        M "ref"          "@ref";
        M "ref_supp"     "@ref[‹M›]";
        M "link"         "https://a.b/c";
        M "escape"       "\\#a";
        M "shorthand"    "a---b~c";
        M "quote"        "\"q\" 'r'";
        M "linebreak"    "foo \\ bar";
        M "linebreak_e"  "foo \\";
        M "content"      "#[‹B›]";
        M "content_sp"   "#[ ‹B› ]";
        M "content_ml"   "#[\n  ‹B›\n]";
        // ---------------- code expressions
        E "int"          "1";
        E "float"        "1.5";
        E "numeric"      "2pt";
        E "str"          "\"s t\"";
        E "bool"         "true";
        E "none"         "none";
        E "auto"         "auto";
        E "block1"       "{‹S›}";
        E "block1_sp"    "{ ‹S› }";
        E "block1_ml"    "{\n  ‹S›\n}";
        E "block2_semi"  "{‹S›; ‹S›}";
        E "block2_ml"    "{\n  ‹S›\n  ‹S›\n}";
        E "block_empty"  "{}";
        E "content_e"    "[‹B›]";
        E "content_e_sp" "[ ‹B› ]";
        E "content_e_ml" "[\n  ‹B›\n]";
        E "content_2l"   "[‹M›\n‹M›]";
        E "content_par"  "[‹M›\n\n‹M›]";
        E "paren"        "(‹E›)";
        E "paren_stmt"   "(‹S›)";
        // statement-like bodies where the printer adds optional braces / parentheses
        E "clos_addassign" "x => v += ‹E›";
        E "clos_assign"  "x => v = ‹E›";
        E "clos_return"  "x => return ‹E›";
        E "clos_let"     "x => let w = ‹E›";
        E "paren2"       "((‹E›))";
        E "arr0"         "()";
        E "arr1"         "(‹E›,)";
        E "arr2"         "(‹E›, ‹E›)";
        E "arr3"         "(‹E›, ‹E›, ‹E›)";
        E "arr2_tc"      "(‹E›, ‹E›,)";
        E "arr2_ml"      "(\n  ‹E›,\n  ‹E›,\n)";
        E "arr_spread"   "(..‹E›)";
        E "arr_spread2"  "(..‹E›, ‹E›)";
        E "dict0"        "(:)";
        E "dict1"        "(k: ‹E›)";
        E "dict2"        "(k: ‹E›, l: ‹E›)";
        E "dict_str"     "(\"k\": ‹E›)";
        E "dict_keyed"   "((‹E›): ‹E›)";
        E "dict_spread"  "(..‹E›, k: ‹E›)";
        E "dict_spread1" "(..‹E›,)";
        E "neg"          "-‹E›";
        E "pos"          "+‹E›";
        E "not"          "not ‹E›";
        E "add"          "‹E› + ‹E›";
        E "sub"          "‹E› - ‹E›";
        E "mul"          "‹E› * ‹E›";
        E "eq"           "‹E› == ‹E›";
        E "lt"           "‹E› < ‹E›";
        E "and"          "‹E› and ‹E›";
        E "or"           "‹E› or ‹E›";
        E "in"           "‹E› in ‹E›";
        E "notin"        "‹E› not in ‹E›";
        E "assign"       "‹E› = ‹E›";
        E "addassign"    "‹E› += ‹E›";
        E "add3"         "‹E› + ‹E› + ‹E›";
        E "ne"           "‹E› != ‹E›";
        E "gt"           "‹E› > ‹E›";
        E "ge"           "‹E› >= ‹E›";
        E "le"           "‹E› <= ‹E›";
        E "div"          "‹E› / ‹E›";
        E "subassign"    "‹E› -= ‹E›";
        E "mulassign"    "‹E› *= ‹E›";
        E "divassign"    "‹E› /= ‹E›";
        E "label"        "<lab>";
        E "eq_label"     "‹E› == <lab>";
        E "destruct_assign" "(a, b) = ‹E›";
        E "destruct_swap" "(a, b) = (b, a)";
        // a float that ends with a dot in front of a field access / method call
        E "float_dot_field" "1. .f";
        E "float_dot_call" "1. .f(‹A›)";
        E "field"        "‹E›.f";
        E "field2"       "‹E›.f.g";
        E "call0"        "‹E›()";
        E "call1"        "‹E›(‹A›)";
        E "call2"        "‹E›(‹A›, ‹A›)";
        E "call2_ml"     "‹E›(\n  ‹A›,\n  ‹A›,\n)";
        E "call_blank"   "‹E›(‹A›,\n\n  ‹A›)";
        E "call_c"       "‹E›[‹M›]";
        E "call_ac"      "‹E›(‹A›)[‹M›]";
        E "call_cc"      "‹E›[‹M›][‹M›]";
        E "method"       "‹E›.f(‹A›)";
        E "method2"      "‹E›.f(‹A›).g(‹A›)";
        E "chain_call"   "‹E›.f.g(‹A›)";
        E "chain3"       "‹E›.f.g.h(‹A›).i";
        E "clos_bare"    "x => ‹E›";
        E "clos_under"   "_ => ‹E›";
        E "clos0"        "() => ‹E›";
        E "clos1"        "(‹R›) => ‹E›";
        E "clos2"        "(‹R›, ‹R›) => ‹E›";
        E "if"           "if ‹E› { ‹S› }";
        E "if_else"      "if ‹E› { ‹S› } else { ‹S› }";
        E "if_elif"      "if ‹E› { ‹S› } else if ‹E› { ‹S› }";
        E "if_c"         "if ‹E› [‹M›]";
        E "if_else_c"    "if ‹E› [‹M›] else [‹M›]";
        E "while"        "while ‹E› { ‹S› }";
        E "for"          "for p in ‹E› { ‹S› }";
        E "for_pat"      "for ‹P› in ‹E› { ‹S› }";
        E "for_c"        "for p in ‹E› [‹M›]";
        E "context"      "context ‹E›";
        E "eq_code"      "$‹X›$";
        E "eq_code_b"    "$ ‹X› $";
        E "raw_code"     "`r w`";
        E "raw_code_b"   "```py\nx  y\n```";
        E "table2"       "table(columns: 2, ‹A›, ‹A›, ‹A›)";
        E "table_arr"    "table(columns: (1fr, 1fr), ‹A›, ‹A›)";
        E "table_hdr"    "table(columns: 2, table.header(‹A›, ‹A›), ‹A›, ‹A›)";
        E "grid_named"   "grid(columns: 2, gutter: 1pt, ‹A›, ‹A›)";
        E "table_cell"   "table(columns: 2, table.cell(‹A›), ‹A›)";
        E "table_nocol"  "table(‹A›, ‹A›)";
        E "table_ftr_mid" "table(columns: 2, ‹A›, table.footer(‹A›))";
        E "table_hdr_mid" "table(columns: 3, ‹A›, ‹A›, table.header(‹A›), ‹A›)";
        E "grid_ftr_row" "grid(columns: 2, ‹A›, ‹A›, ‹A›, grid.footer(‹A›, ‹A›))";
        E "table_hdr_ftr" "table(columns: 2, table.header(‹A›), ‹A›, ‹A›, ‹A›, table.footer(‹A›))";
        // ---------------- statements
        S "let"          "let v = ‹E›";
        S "let_bare"     "let v";
        S "let_pat"      "let ‹P› = ‹E›";
        S "let_fn"       "let g(‹R›) = ‹E›";
        S "let_fn2"      "let g(‹R›, ‹R›) = ‹E›";
        S "set"          "set g(‹A›)";
        S "set_if"       "set g(‹A›) if ‹E›";
        S "show"         "show ‹E›: ‹E›";
        S "show_all"     "show: ‹E›";
        S "show_set"     "show ‹E›: set g(‹A›)";
        S "set_trailing" "set g(‹A›)[‹M›]";
        S "set_content"  "set g[‹M›]";
        S "set_dotted"   "set std.figure.caption(‹A›)";
        S "show_set_dot" "show std.figure: set std.figure.caption(‹A›)";
        S "show_dotted"  "show std.math.equation: ‹E›";
        S "import_dotted" "import a.b.c: d";
        S "import_empty" "import \"m.typ\": ()";
        S "import_empty_as" "import \"m.typ\" as n: ( )";
        S "import"       "import \"m.typ\"";
        S "import1"      "import \"m.typ\": a";
        S "import2"      "import \"m.typ\": b, a";
        S "import_star"  "import \"m.typ\": *";
        S "import_as"    "import \"m.typ\" as m";
        S "import_par"   "import \"m.typ\": (b, a)";
        S "import_ren"   "import \"m.typ\": b as c, a.d";
        S "import_e"     "import ‹E›: a";
        S "include"      "include ‹E›";
        S "return"       "return";
        S "return_e"     "return ‹E›";
        S "break"        "break";
        S "continue"     "continue";
        S "destruct"     "‹P› = ‹E›";
        // ---------------- patterns
        P "pat_tuple"    "(‹P›, ‹P›)";
        P "pat_tuple1"   "(‹P›,)";
        P "pat_paren"    "(‹P›)";
        P "pat_named"    "(k: ‹P›)";
        P "pat_sink"     "(‹P›, ..r)";
        P "pat_sink0"    "(..r)";
        P "pat_dots"     "(‹P›, ..)";
        P "pat_under"    "_";
        P "pat_named_under" "(k: _, ‹P›)";
        // ---------------- arguments
        A "named"        "k: ‹E›";
        A "spread"       "..‹E›";
        // ---------------- parameters
        R "param_named"  "k: ‹E›";
        R "param_sink"   "..r";
        R "param_sink0"  "..";
        R "param_pat"    "(‹P›, ‹P›)";
        R "param_under"  "_";
        R "param_paren"  "(a)";
        // ---------------- math
        X "m_ident"      "pi";
        X "m_num"        "12";
        X "m_str"        "\"t u\"";
        X "m_call1"      "f(‹X›)";
        X "m_call2"      "f(‹X›, ‹X›)";
        X "m_call2_sp"   "f( ‹X› , ‹X› )";
        X "m_mat"        "mat(‹X›, ‹X›; ‹X›, ‹X›)";
        X "m_call_hash"  "f(#‹E›)";
        X "m_call_hash2" "f(#‹E›, ‹X›; ‹X›)";
        X "m_call_named" "f(k: ‹X›)";
        X "m_call_ml"    "f(\n  ‹X›,\n  ‹X›\n)";
        X "m_field_call" "f.g(‹X›)";
        // real math function calls: a multi-letter identifier directly before '(' (a single letter
        // followed by '(' is text and a delimited group, see the m_call* productions above)
        X "m_fn1"        "fn(‹X›)";
        X "m_fn2"        "fn(‹X›, ‹X›)";
        X "m_fn2_sp"     "fn( ‹X› , ‹X› )";
        X "m_fn_empty"   "fn()";
        X "m_fn_hash"    "fn(#‹E›)";
        X "m_fn_hash2"   "fn(#‹E›, ‹X›; ‹X›)";
        X "m_fn_named"   "fn(k: ‹X›)";
        X "m_fn_named_hash" "fn(k: #‹E›, ‹X›)";
        X "m_fn_spread"  "fn(..#‹E›, ‹X›)";
        X "m_fn_ml"      "fn(\n  ‹X›,\n  ‹X›\n)";
        X "m_fn_field"   "ff.gg(‹X›)";
        X "m_fn_kinds"   "fn(x_1, a/b, pi, ->, \\#)";
        X "m_fn_primes"  "ff'(‹X›)";
        X "m_fn_nested"  "fn(gn(‹X›), ‹X›)";
        // argument ends that must not touch the separator: a backslash, a hashed expression
        X "m_fn_bs_end"  "fn(‹X› \\ )";
        X "m_fn_bs_comma" "fn(‹X› \\ , ‹X›)";
        X "m_fn_bs_semi" "fn(‹X›, ‹X› \\ ; ‹X›)";
        X "m_fn_hash_semi" "fn(‹X› #a ; ‹X›)";
        X "m_fn_hash_comma" "fn(#a , ‹X›)";
        X "m_fn_hash_end" "fn(‹X›, #a )";
        X "m_field_attach" "arrow.r_‹X›";
        X "m_hash_let"   "#let v = 1; ‹X›";
        X "m_hash_sub"   "#a _ ‹X›";
        X "m_hash_sup"   "#a ^ ‹X›";
        X "m_hash_subsup" "#a.b _ ‹X› ^ ‹X›";
        X "m_bs_sub"     "\\ _‹X›";
        X "m_bs_sup"     "\\ ^‹X›";
        X "m_sub"        "x_‹X›";
        X "m_sup"        "x^‹X›";
        X "m_subsup"     "x_‹X›^‹X›";
        X "m_sub_sp"     "x _ ‹X›";
        X "m_frac"       "‹X›/‹X›";
        X "m_frac_sp"    "‹X› / ‹X›";
        X "m_root"       "√‹X›";
        X "m_prime"      "x'";
        X "m_prime_sub"  "x'_‹X›";
        X "m_paren"      "(‹X›)";
        X "m_paren_sp"   "( ‹X› )";
        X "m_brack"      "[‹X›]";
        X "m_brace"      "{‹X›}";
        X "m_abs"        "|‹X›|";
        X "m_lr"         "lr((‹X›])";
        X "m_hash"       "#‹E›";
        X "m_hash_call"  "#g(‹A›)";
        X "m_align"      "‹X› &= ‹X›";
        X "m_linebreak"  "‹X› \\ ‹X›";
        X "m_linebreak_nl" "‹X› \\\n‹X›";
        X "m_arrow"      "->";
        X "m_dot"        "x.y";
        X "m_seq_sp"     "‹X› ‹X›";
        X "m_seq_tight"  "‹X›‹X›";
        X "m_plus"       "‹X›+‹X›";
        X "m_plus_sp"    "‹X› + ‹X›";
        X "m_nl"         "‹X›\n‹X›";
        X "m_attach_call" "f_‹X›(‹X›)";
        X "m_sub_paren"  "x_(‹X›)";
        X "m_escape"     "\\$";
    }
}

/// Payload alphabet of C07: well-formed but badly formatted nodes.
pub fn ugly_productions() -> Vec<Prod> {
    let mut v = prods! {
        E "u_call"       "g( 1,2 )";
        E "u_call_ml"    "g(1,\n      2,\n  3)";
        E "u_call_tb"    "g(1,  \n 2)";
        E "u_arr"        "( 1 ,2 )";
        E "u_dict"       "(k:1,l :2)";
        E "u_block"      "{ let  q=1;q }";
        E "u_block_ml"   "{\n let q = 1\n      q\n}";
        E "u_content"    "[ a   b ]";
        E "u_closure"    "x=>x +1";
        E "u_eq"         "$a+b  c$";
        E "u_binary"     "a  +  b";
        E "u_chain"      "a . b( 1 ) .c()";
        E "u_if"         "if  a {b}else{ c }";
        E "u_str"        "\"s  \n t\"";
        E "u_paren"      "(  a  )";
        E "u_unary"      "- a";
        S "u_let"        "let  q  =  1";
        S "u_set"        "set  g( a:1 )";
        S "u_show"       "show  a :  b";
        S "u_import"     "import  \"m.typ\" :b,a";
        X "u_m_binary"   "a  +  b";
        X "u_m_call"     "f( x ,y )";
        X "u_m_attach"   "x _ 1";
        X "u_m_frac"     "a   /   b";
        X "u_m_delim"    "(  x  )";
        X "u_m_ml"       "a  &= b \\\n      c";
        M "u_strong"     "*a   b*";
        M "u_hash"       "#g( 1,2 )";
        M "u_eq_m"       "$a+b  c$";
        M "u_text"       "a   b    c";
        P "u_pat"        "( p ,q )";
        A "u_named"      "k :  1";
        R "u_param"      "k :  1";
    };
    for p in &mut v {
        p.ugly = true;
    }
    v
}

/// Contexts: root templates with one hole. They set the printer's mode flags
/// (Markup / Code / CodeCont / Math, break suppression, indentation level).
#[derive(Clone, Debug)]
pub struct Ctx {
    pub name: &'static str,
    pub segs: Vec<Seg>,
    pub hole: Sort,
}

pub fn contexts() -> Vec<Ctx> {
    let raw: Vec<(&'static str, &'static str)> = vec![
        ("doc", "‹B›"),
        ("hash", "#‹S›"),
        ("let", "#let v = ‹E›"),
        ("codeblock", "#{\n  ‹S›\n}"),
        ("arg", "#g(‹A›)"),
        ("math_i", "$‹X›$"),
        ("math_b", "$ ‹X› $"),
        ("mixed", "foo #‹S› bar"),
        ("item", "- ‹M›"),
        ("content_ml", "#g[\n  ‹B›\n]"),
        ("nested_code", "#{\n  if c {\n    ‹S›\n  }\n}"),
        ("nested_code3", "#{\n  if c {\n    g(\n      ‹A›,\n    )\n  }\n}"),
        ("math_hash", "$#‹E›$"),
        ("heading", "= ‹M›"),
        ("strong", "*‹M›*"),
        ("pattern", "#let ‹P› = d"),
        ("param", "#let g(‹R›) = d"),
    ];
    raw.into_iter()
        .map(|(name, t)| {
            let (segs, holes) = parse_tpl(t);
            assert_eq!(holes, 1);
            let hole = segs
                .iter()
                .find_map(|s| if let Seg::Hole(h) = s { Some(*h) } else { None })
                .unwrap();
            Ctx { name, segs, hole }
        })
        .collect()
}

#[derive(Clone, Copy, PartialEq, Eq, Debug, Hash)]
pub enum Size {
    /// all atoms short
    Short,
    /// the first atom is ~45 chars
    Medium,
    /// all atoms ~20 chars
    AllMid,
    /// the first atom is ~130 chars
    Long,
    /// the LAST atom is ~45 chars (short callee / long arguments)
    Tail,
}

impl Size {
    pub fn tag(self) -> &'static str {
        match self {
            Size::Short => "s",
            Size::Medium => "m",
            Size::AllMid => "a",
            Size::Long => "l",
            Size::Tail => "t",
        }
    }
}

const E_SHORT: [&str; 6] = ["a", "b", "c", "d", "e", "h"];
const M_SHORT: [&str; 6] = ["foo", "bar", "baz", "qux", "quux", "corge"];
const X_SHORT: [&str; 6] = ["x", "y", "z", "u", "v", "w"];
const P_SHORT: [&str; 6] = ["p", "q", "p2", "q2", "p3", "q3"];
const R_SHORT: [&str; 6] = ["r", "s", "r2", "s2", "r3", "s3"];

fn atom(sort: Sort, idx: usize, size: Size, is_last: bool) -> String {
    let i = idx % 6;
    let long_first = |short: &str, n: usize, sep: &str, math: bool| -> String {
        // build an atom of about n chars that starts with `short`
        let words = ["alpha", "beta", "gamma", "delta", "epsilon", "zeta", "eta", "theta", "iota", "kappa", "lambda", "mu"];
        let mut s = String::from(short);
        let mut k = 0;
        while s.len() < n {
            s.push_str(sep);
            s.push_str(words[k % words.len()]);
            k += 1;
        }
        let _ = math;
        s
    };
    let (short, sep): (&str, &str) = match sort {
        Sort::E | Sort::S | Sort::A => (E_SHORT[i], "_"),
        Sort::M | Sort::B => (M_SHORT[i], " "),
        Sort::X => (X_SHORT[i], " "),
        Sort::P => (P_SHORT[i], "_"),
        Sort::R => (R_SHORT[i], "_"),
    };
    match size {
        Size::Short => short.to_string(),
        Size::Medium => {
            if idx == 0 {
                long_first(short, 45, sep, sort == Sort::X)
            } else {
                short.to_string()
            }
        }
        Size::AllMid => long_first(short, 20, sep, sort == Sort::X),
        Size::Long => {
            if idx == 0 {
                long_first(short, 130, sep, sort == Sort::X)
            } else {
                short.to_string()
            }
        }
        Size::Tail => {
            if is_last {
                long_first(short, 45, sep, sort == Sort::X)
            } else {
                short.to_string()
            }
        }
    }
}

/// A skeleton: context + spine of (production, hole index into which the next level is nested).
#[derive(Clone, Debug, PartialEq, Eq, Hash)]
pub struct Skeleton {
    pub ctx: usize,
    /// (production index, chosen hole); the chosen hole of the last element is ignored
    pub spine: Vec<(usize, usize)>,
    pub size: Size,
}

pub struct Model {
    pub prods: Vec<Prod>,
    pub ctxs: Vec<Ctx>,
}

impl Default for Model {
    fn default() -> Self {
        Self::new()
    }
}

impl Model {
    pub fn new() -> Model {
        Model { prods: productions(), ctxs: contexts() }
    }

    /// The model extended with the payload alphabet of C07.
    pub fn with_ugly() -> Model {
        let mut prods = productions();
        prods.extend(ugly_productions());
        Model { prods, ctxs: contexts() }
    }

    pub fn ctx_index(&self, name: &str) -> usize {
        self.ctxs.iter().position(|c| c.name == name).unwrap_or_else(|| panic!("no ctx {name}"))
    }

    pub fn prod_index(&self, name: &str) -> usize {
        self.prods.iter().position(|c| c.name == name).unwrap_or_else(|| panic!("no prod {name}"))
    }

    /// Enumerate all spines of exactly `k` productions under context `ctx` (k >= 0).
    pub fn spines(&self, ctx: usize, k: usize) -> Vec<Vec<(usize, usize)>> {
        let mut res = vec![];
        let mut cur = vec![];
        self.spines_rec(self.ctxs[ctx].hole, k, &mut cur, &mut res);
        res
    }

    fn spines_rec(&self, hole: Sort, k: usize, cur: &mut Vec<(usize, usize)>, res: &mut Vec<Vec<(usize, usize)>>) {
        if k == 0 {
            res.push(cur.clone());
            return;
        }
        for (pi, p) in self.prods.iter().enumerate() {
            if !hole.accepts(p.sort) {
                continue;
            }
            if k == 1 {
                cur.push((pi, 0));
                res.push(cur.clone());
                cur.pop();
            } else {
                let mut hi = 0;
                for seg in &p.segs {
                    if let Seg::Hole(h) = seg {
                        cur.push((pi, hi));
                        self.spines_rec(*h, k - 1, cur, res);
                        cur.pop();
                        hi += 1;
                    }
                }
            }
        }
    }

    pub fn describe(&self, sk: &Skeleton) -> String {
        let mut s = format!("{}", self.ctxs[sk.ctx].name);
        for (i, (p, h)) in sk.spine.iter().enumerate() {
            s.push('/');
            s.push_str(self.prods[*p].name);
            if i + 1 < sk.spine.len() {
                s.push_str(&format!("@{h}"));
            }
        }
        s.push_str(&format!("|size={}", sk.size.tag()));
        s
    }

    /// Instantiate a skeleton to source text.
    pub fn instantiate(&self, sk: &Skeleton) -> String {
        if sk.size == Size::Tail {
            // dry run to learn how many atoms there are; the last one becomes the long one
            let mut c = [0usize; 8];
            let dry = Skeleton { size: Size::Short, ..sk.clone() };
            let _ = self.instantiate_with(&dry, &mut c);
            let total: usize = c[..5].iter().sum();
            let mut counter = [0usize; 8];
            counter[7] = total; // slot 7: total number of atoms (0 = unknown)
            return self.instantiate_with(sk, &mut counter);
        }
        let mut counter = [0usize; 8];
        self.instantiate_with(sk, &mut counter)
    }

    fn instantiate_with(&self, sk: &Skeleton, counter: &mut [usize; 8]) -> String {
        let counter: &mut [usize; 8] = counter;
        let inner = self.inst_level(sk, 0, counter);
        let ctx = &self.ctxs[sk.ctx];
        let mut out = String::new();
        for seg in &ctx.segs {
            match seg {
                Seg::Lit(l) => out.push_str(l),
                Seg::Hole(h) => {
                    let filler = match &inner {
                        Some(t) => t.clone(),
                        None => self.atom_for(*h, sk.size, counter),
                    };
                    push_indented(&mut out, &filler);
                }
            }
        }
        out
    }

    fn atom_for(&self, h: Sort, size: Size, counter: &mut [usize; 8]) -> String {
        let slot = match h {
            Sort::E | Sort::S | Sort::A => 0,
            Sort::M | Sort::B => 1,
            Sort::X => 2,
            Sort::P => 3,
            Sort::R => 4,
        };
        let idx = counter[slot];
        counter[slot] += 1;
        counter[6] += 1; // slot 6: atoms placed so far (all sorts)
        let is_last = counter[7] > 0 && counter[6] == counter[7];
        atom(h, idx, size, is_last)
    }

    fn inst_level(&self, sk: &Skeleton, level: usize, counter: &mut [usize; 8]) -> Option<String> {
        if level >= sk.spine.len() {
            return None;
        }
        let (pi, chosen) = sk.spine[level];
        let p = &self.prods[pi];
        let is_last = level + 1 == sk.spine.len();
        let mut out = String::new();
        let mut hi = 0;
        for seg in &p.segs {
            match seg {
                Seg::Lit(l) => out.push_str(l),
                Seg::Hole(h) => {
                    let filler = if !is_last && hi == chosen {
                        self.inst_level(sk, level + 1, counter).unwrap()
                    } else {
                        self.atom_for(*h, sk.size, counter)
                    };
                    push_indented(&mut out, &filler);
                    hi += 1;
                }
            }
        }
        Some(out)
    }
}

/// Append `filler` to `out`; continuation lines of the filler are indented by the leading
/// spaces of the line of `out` on which the hole sits.
fn push_indented(out: &mut String, filler: &str) {
    if !filler.contains('\n') {
        out.push_str(filler);
        return;
    }
    let line_start = out.rfind('\n').map(|i| i + 1).unwrap_or(0);
    let indent: String = out[line_start..].chars().take_while(|c| *c == ' ').collect();
    for (i, l) in filler.split('\n').enumerate() {
        if i > 0 {
            out.push('\n');
            if !l.is_empty() {
                out.push_str(&indent);
            }
        }
        out.push_str(l);
    }
}

// ---------------------------------------------------------------------------------------------
// Trivia deviations

#[derive(Clone, Copy, Debug, PartialEq, Eq, Hash)]
pub struct Form {
    pub name: &'static str,
    pub text: &'static str,
}

pub const FORMS: &[Form] = &[
    Form { name: "none", text: "" },
    Form { name: "sp", text: " " },
    Form { name: "sp2", text: "  " },
    Form { name: "tab", text: "\t" },
    Form { name: "nl", text: "\n" },
    Form { name: "nl2", text: "\n\n" },
    Form { name: "nl4", text: "\n\n\n\n" },
    Form { name: "nl_sp", text: "\n  " },
    Form { name: "crlf", text: "\r\n" },
    Form { name: "cr", text: "\r" },
    Form { name: "ls", text: "\u{2028}" },
    Form { name: "ff", text: "\u{c}" },
    Form { name: "vt", text: "\u{b}" },
    Form { name: "nel", text: "\u{85}" },
    Form { name: "ps", text: "\u{2029}" },
    Form { name: "sp_ff_sp", text: " \u{c} " },
    Form { name: "bc", text: "/*c1*/" },
    Form { name: "bc_sp", text: " /*c1*/ " },
    Form { name: "lc", text: "//c1\n" },
    Form { name: "lc_sp", text: " //c1\n" },
    Form { name: "nl_lc", text: "\n//c1\n" },
    Form { name: "bc_ml", text: "/*c1\n  d*/" },
    Form { name: "bc_star", text: "/* c1\n * d\n */" },
    Form { name: "lc_lc", text: "//c1\n//c2\n" },
    Form { name: "bc_bc", text: "/*c1*//*c2*/" },
    Form { name: "nl_bc_nl", text: "\n/*c1*/\n" },
    Form { name: "nl_sp12", text: "\n            " },
    Form { name: "bc_ws_line", text: "/*c1\n    d\n  \n    e*/" },
    Form { name: "bc_blank", text: "/*c1\n\n    d*/" },
    Form { name: "bc_tab", text: "/*c1\n\td\n  e*/" },
    Form { name: "bc_uni", text: "/*c1\n\u{3000}d\n\u{a0} e*/" },
    Form { name: "bc_tab_line", text: "/*c1\n\t\n     d*/" },
    Form { name: "off_tight", text: "/*@typstyle off*/" },
    Form { name: "off_reason", text: "// @typstyle off: aligned by hand\n" },
    Form { name: "off_mid", text: "/* keep, @typstyle off, please */" },
    Form { name: "off_bc", text: "/* @typstyle off */" },
    Form { name: "off_lc", text: "// @typstyle off\n" },
];

pub fn form(name: &str) -> Form {
    *FORMS.iter().find(|f| f.name == name).unwrap_or_else(|| panic!("no form {name}"))
}

pub fn forms(names: &[&str]) -> Vec<Form> {
    names.iter().map(|n| form(n)).collect()
}

pub const FORMS_WS: &[&str] = &["none", "sp", "sp2", "tab", "nl", "nl2", "nl4", "nl_sp", "crlf", "cr", "ls", "ff", "vt", "nel", "ps", "sp_ff_sp"];
/// every line terminator of Typst that is not LF, alone in a gap
pub const FORMS_NEWLINES: &[&str] = &["crlf", "cr", "ls", "ff", "vt", "nel", "ps", "sp_ff_sp"];
pub const FORMS_COMMENT: &[&str] = &[
    "bc", "bc_sp", "lc", "lc_sp", "nl_lc", "bc_ml", "bc_star", "lc_lc", "bc_bc", "nl_bc_nl", "off_bc", "off_lc", "bc_ws_line", "bc_blank", "bc_tab", "bc_uni", "bc_tab_line",
];
pub const FORMS_DIRECTIVE: &[&str] = &["off_bc", "off_lc", "off_tight", "off_reason", "off_mid"];
pub const FORMS_ALL: &[&str] = &[
    "none", "sp", "sp2", "tab", "nl", "nl2", "nl4", "nl_sp", "crlf", "cr", "ls", "bc", "bc_sp", "lc", "lc_sp", "nl_lc",
    "bc_ml", "bc_star", "lc_lc", "bc_bc", "nl_bc_nl", "off_bc", "off_lc", "nl_sp12", "bc_ws_line", "bc_blank", "bc_tab", "bc_uni", "bc_tab_line",
    "ff", "vt", "nel", "ps", "sp_ff_sp",
];
pub const FORMS_QUICK: &[&str] = &["nl", "lc", "bc", "none", "nl2", "sp", "nl_lc", "bc_ml", "lc_sp", "bc_sp", "nl4", "cr"];

/// Apply deviations (gap index, form) to `base`. Gaps must come from `syntax::gaps(parse(base))`.
/// Distinct comments get distinct texts: the i-th applied deviation's `c1`/`c2` become `c{2i+1}`/`c{2i+2}`.
pub fn apply_deviations(base: &str, gaps: &[Gap], devs: &[(usize, Form)]) -> String {
    let mut devs: Vec<(usize, Form)> = devs.to_vec();
    devs.sort_by_key(|d| d.0);
    let mut out = String::with_capacity(base.len() + 32);
    let mut pos = 0;
    for (i, (g, f)) in devs.iter().enumerate() {
        let r = &gaps[*g].range;
        out.push_str(&base[pos..r.start]);
        if i == 0 {
            out.push_str(f.text);
        } else {
            let t = f
                .text
                .replace("c2", &format!("c{}", 2 * i + 2))
                .replace("c1", &format!("c{}", 2 * i + 1));
            out.push_str(&t);
        }
        pos = r.end;
    }
    out.push_str(&base[pos..]);
    out
}

pub fn gap_signature(g: &Gap, f: &Form) -> String {
    let k = |k: Option<typst_syntax::SyntaxKind>| k.map(|k| format!("{k:?}")).unwrap_or_else(|| "-".into());
    format!(
        "{}:{}>{:?}[{}^{}]:{}",
        g.mode.tag(),
        k(g.grandparent),
        g.parent,
        k(g.left),
        k(g.right),
        f.name
    )
}

pub fn base_gaps(text: &str) -> Vec<Gap> {
    syntax::gaps(&syntax::parse(text), text.len())
}
