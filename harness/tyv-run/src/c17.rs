//! E3 / C17: purity and determinism.
//!
//! 1. fresh processes: every call of the alphabet alone in its own process, three times;
//! 2. histories: every sequence of <= 3 calls (three thread-assignment modes), each history in a fresh
//!    process, each result compared with the reference of that call made alone;
//! 3. schedules: 2-3 real OS threads, each running a short program of calls, interleaved by a baton
//!    scheduler at the hook points of typstyle-core (--cfg typstyle_verif); all schedules up to a
//!    preemption bound are explored depth-first (CHESS style), every schedule runs to completion on
//!    the real code.

use std::collections::HashSet;
use std::process::{Command, Stdio};
use std::sync::atomic::{AtomicBool, AtomicUsize, Ordering};
use std::sync::{Arc, Condvar, Mutex};
use std::time::{Duration, Instant};

use serde_json::{json, Value};
use typst_syntax::Source;
use typstyle_core::{verif_hooks, Config, Typstyle};
use tyv_model::report::{self, Coverage, Failure, Outcome};
use tyv_model::subject::guarded;
use tyv_model::syntax::esc;

// ------------------------------------------------------------------------------------ call alphabet

#[derive(Clone, Debug)]
pub struct Call {
    pub name: &'static str,
    pub text: &'static str,
    pub width: usize,
    pub tab: usize,
    pub reorder: bool,
    /// Some: format_source_range on the process-wide shared Source of this text
    pub range: Option<(usize, usize)>,
}

const DOC: &str = "= Title\n\nSome *strong* text with $x^2 + f(a, b)$ and #g(a, b)[c].\n\n- item\n  - nested /* c */\n\n#let v = (a: 1, b: (1, 2, 3)) // trailing\n#import \"m.typ\": c, b, a\n";

/// Several texts have the same tree shape (hence identical span numbers: every detached Source
/// shares one FileId) but different attributes.
pub fn alphabet() -> Vec<Call> {
    let c = |name, text, width, tab, reorder| Call { name, text, width, tab, reorder, range: None };
    vec![
        c("flat", "#f( a, bbbbbbbbbb, cccccccccc)", 80, 2, false),
        c("flavor", "#f(\na, bbbbbbbbbb, cccccccccc)", 80, 2, false),
        c("comment", "#f(/*ccccccccccccc*/a,   b, c  )", 80, 2, false),
        c("off", "#f(/* @typstyle off */a,   b, c  )", 80, 2, false),
        c("flat_w0", "#f( a, bbbbbbbbbb, cccccccccc)", 0, 4, false),
        c("erroneous", "#f( a, bbbbbbbbbb, cccccccccc", 80, 2, false),
        c("import_on", "#import \"m.typ\": c, b, a", 80, 2, true),
        c("import_off", "#import \"m.typ\": c, b, a", 80, 2, false),
        // items that tie under every plausible sort key (same path under several names, same name
        // from several paths): an order taken from a hashed container differs from run to run
        c("import_ties", "#import \"m.typ\": a as y, q.c, b, a as x, p.c as d, a as w, c.c as e, a as v", 80, 2, true),
        c("doc", DOC, 40, 2, false),
        c("doc_reorder", DOC, 120, 3, true),
        // same shape, different answers of the table predicate / of the chain width estimate
        c("table2", "#table(columns: 2, [a], [b], [c], [d], [e], [f])", 80, 2, false),
        c("table3", "#table(columns: 3, [a], [b], [c], [d], [e], [f])", 80, 2, false),
        c("chain_short", "#let v = aa.bb.cc(d)", 40, 2, false),
        c("chain_long", "#let v = aaaaaaaaaaaaaaaa.bbbbbbbbbbbbbbbbbbbb.cccccccccccccccccccc(d)", 40, 2, false),
        // resource extremes: nesting far deeper than any fixture, an erroneous text of the same depth
        c("deep", deep_text(), 80, 2, false),
        // narrow and deep, badly spaced at every level: two of these in flight together hold 280
        // levels, so a limit that is counted per process instead of per call shows in the output
        c("deep_narrow", deep_narrow_text(), 80, 2, false),
        Call { name: "range_inner", text: DOC, width: 80, tab: 2, reorder: false, range: Some((40, 47)) },
        Call { name: "range_all", text: DOC, width: 20, tab: 2, reorder: false, range: Some((0, 1000)) },
    ]
}

fn deep_narrow_text() -> &'static str {
    static T: std::sync::OnceLock<String> = std::sync::OnceLock::new();
    T.get_or_init(|| format!("#{}1{}", "f( ".repeat(140), " )".repeat(140)))
}

fn deep_text() -> &'static str {
    static T: std::sync::OnceLock<String> = std::sync::OnceLock::new();
    // a pyramid: 300 levels of calls, every level with 300 sibling arguments before the nested
    // call, so that whatever depth a resource limit sits at, hundreds of nodes hit it
    T.get_or_init(|| {
        let level = format!("f({}", "1, ".repeat(300));
        format!("#{}1{} and #f( 1,2 )", level.repeat(300), ")".repeat(300))
    })
}

fn shared_source(text: &'static str) -> Arc<Source> {
    static SRC: Mutex<Vec<(&'static str, Arc<Source>)>> = Mutex::new(vec![]);
    let mut g = SRC.lock().unwrap();
    if let Some((_, s)) = g.iter().find(|(t, _)| *t == text) {
        return s.clone();
    }
    let s = Arc::new(Source::detached(text));
    g.push((text, s.clone()));
    s
}

pub fn run_call(c: &Call) -> String {
    let cfg = Config { max_width: c.width, tab_spaces: c.tab, reorder_import_items: c.reorder, ..Default::default() };
    let r = guarded(|| match c.range {
        None => match Typstyle::new(cfg.clone()).format_content(c.text) {
            Ok(s) => format!("ok:{s}"),
            Err(e) => format!("err:{e}"),
        },
        Some((a, b)) => {
            let src = shared_source(c.text);
            match Typstyle::new(cfg.clone()).format_source_range(&src, a..b) {
                Ok((r, s)) => format!("ok:{}..{}:{s}", r.start, r.end),
                Err(e) => format!("err:{e}"),
            }
        }
    });
    match r {
        Ok(s) => s,
        Err(m) => format!("panic:{m}"),
    }
}

fn exe() -> std::path::PathBuf {
    std::env::current_exe().unwrap()
}

fn sub(args: &[String]) -> Result<Value, String> {
    let out = Command::new(exe()).args(args).stdin(Stdio::null()).output().map_err(|e| e.to_string())?;
    if !out.status.success() {
        return Err(format!("worker {:?} exited with {:?}: {}", args, out.status.code(), String::from_utf8_lossy(&out.stderr)));
    }
    let s = String::from_utf8_lossy(&out.stdout);
    let line = s.lines().last().unwrap_or("");
    serde_json::from_str(line).map_err(|e| format!("worker {:?}: bad output: {e}: {line}", args))
}

/// `tyv c17-one <i>`: one call alone in this (fresh) process.
pub fn worker_one(i: usize) -> i32 {
    let a = alphabet();
    println!("{}", json!([run_call(&a[i])]));
    0
}

/// `tyv c17-hist <mode> <i,j,k>`: one history in this (fresh) process.
/// mode 0: all calls on the main thread; 1: each call on its own new thread (joined before the
/// next); 2: two persistent threads A,B taking the calls alternately (A,B,A), one at a time.
pub fn worker_hist(mode: usize, calls: &[usize]) -> i32 {
    let a = alphabet();
    let mut res: Vec<String> = vec![];
    match mode {
        0 => {
            for &i in calls {
                res.push(run_call(&a[i]));
            }
        }
        1 => {
            for &i in calls {
                let c = a[i].clone();
                res.push(std::thread::spawn(move || run_call(&c)).join().unwrap());
            }
        }
        _ => {
            use std::sync::mpsc;
            let mut txs = vec![];
            let (rtx, rrx) = mpsc::channel::<String>();
            let mut hs = vec![];
            for _ in 0..2 {
                let (tx, rx) = mpsc::channel::<Call>();
                let rtx = rtx.clone();
                txs.push(tx);
                hs.push(std::thread::spawn(move || {
                    while let Ok(c) = rx.recv() {
                        rtx.send(run_call(&c)).unwrap();
                    }
                }));
            }
            for (n, &i) in calls.iter().enumerate() {
                txs[n % 2].send(a[i].clone()).unwrap();
                res.push(rrx.recv().unwrap());
            }
            drop(txs);
            for h in hs {
                let _ = h.join();
            }
        }
    }
    println!("{}", json!(res));
    0
}

// ------------------------------------------------------------------------------------ baton scheduler

struct SchedState {
    /// thread that holds the baton (None before the start / after the end)
    baton: Option<usize>,
    /// per thread: registered and waiting at a point (or at its start)
    waiting: Vec<bool>,
    finished: Vec<bool>,
    /// threads that were handed the baton but made no progress (blocked on an OS lock held by a waiting thread)
    blocked: Vec<bool>,
    /// forced choices (index into the canonical enabled list) for the first decisions
    prefix: Vec<usize>,
    /// all decisions taken in this run: (chosen index, size of the enabled list, running thread still enabled, chosen thread)
    decisions: Vec<(usize, usize, bool, usize)>,
    trace_len: usize,
    progress: u64,
    diverged: bool,
    blocked_events: usize,
}

struct Sched {
    m: Mutex<SchedState>,
    cv: Condvar,
}

static SCHED: Mutex<Option<Arc<Sched>>> = Mutex::new(None);
thread_local! {
    static MY_ID: std::cell::Cell<Option<usize>> = const { std::cell::Cell::new(None) };
}

fn sched() -> Option<Arc<Sched>> {
    SCHED.lock().unwrap().clone()
}

/// Canonical order of the enabled threads: the running thread first (if still enabled), then ascending ids.
fn enabled_list(st: &SchedState, running: Option<usize>) -> Vec<usize> {
    let n = st.finished.len();
    let mut v = vec![];
    if let Some(r) = running {
        if !st.finished[r] && !st.blocked[r] {
            v.push(r);
        }
    }
    for t in 0..n {
        if Some(t) != running && !st.finished[t] && !st.blocked[t] {
            v.push(t);
        }
    }
    v
}

/// Take a scheduling decision on behalf of `me` (the thread that currently holds the baton) and
/// hand the baton over. Must be called with the state locked.
fn decide(st: &mut SchedState, me: usize) {
    let list = enabled_list(st, Some(me));
    if list.is_empty() {
        st.baton = None;
        return;
    }
    let d = st.decisions.len();
    let running_enabled = list[0] == me;
    let choice = if d < st.prefix.len() {
        let c = st.prefix[d];
        if c >= list.len() {
            st.diverged = true;
            0
        } else {
            c
        }
    } else {
        0
    };
    st.decisions.push((choice, list.len(), running_enabled, list[choice]));
    st.baton = Some(list[choice]);
}

fn wait_for_baton(s: &Sched, mut st: std::sync::MutexGuard<'_, SchedState>, me: usize) {
    st.waiting[me] = true;
    st.progress += 1;
    s.cv.notify_all();
    let mut handed_at = (st.progress, Instant::now());
    loop {
        if st.baton == Some(me) {
            st.waiting[me] = false;
            st.blocked[me] = false;
            return;
        }
        let (g, to) = s.cv.wait_timeout(st, Duration::from_millis(50)).unwrap();
        st = g;
        if st.baton == Some(me) {
            continue;
        }
        // watchdog: the thread that holds the baton makes no progress while everybody else waits ->
        // it is blocked on an OS lock held by one of the waiting threads. Model it as blocked.
        if st.progress != handed_at.0 {
            handed_at = (st.progress, Instant::now());
        } else if to.timed_out() && handed_at.1.elapsed() > Duration::from_millis(5000) {
            if let Some(h) = st.baton {
                let everybody_else_waits = (0..st.waiting.len()).all(|t| t == h || st.waiting[t] || st.finished[t]);
                if everybody_else_waits && !st.waiting[h] && !st.finished[h] {
                    // the lowest waiting thread takes over
                    let taker = (0..st.waiting.len()).find(|&t| t != h && st.waiting[t] && !st.finished[t]);
                    if taker == Some(me) {
                        st.blocked[h] = true;
                        st.blocked_events += 1;
                        st.baton = Some(me);
                        st.progress += 1;
                        s.cv.notify_all();
                    }
                }
            }
            handed_at = (st.progress, Instant::now());
        }
    }
}

fn hook(_p: verif_hooks::Point) {
    let Some(me) = MY_ID.with(|c| c.get()) else { return };
    let Some(s) = sched() else { return };
    let mut st = s.m.lock().unwrap();
    st.trace_len += 1;
    if st.baton != Some(me) {
        // a thread that was modelled as blocked got through: it waits for the baton like everybody else
        wait_for_baton(&s, st, me);
        return;
    }
    decide(&mut st, me);
    if st.baton == Some(me) {
        return;
    }
    wait_for_baton(&s, st, me);
}

pub struct RunResult {
    pub results: Vec<Vec<String>>,
    pub decisions: Vec<(usize, usize, bool, usize)>,
    pub trace_len: usize,
    pub diverged: bool,
    pub blocked_events: usize,
}

/// Run the thread programs under the schedule prefix; default continuation = keep running the
/// current thread (no preemption), on finish the lowest enabled thread.
pub fn run_schedule(programs: &[Vec<usize>], prefix: &[usize]) -> RunResult {
    let a = alphabet();
    let n = programs.len();
    let s = Arc::new(Sched {
        m: Mutex::new(SchedState {
            baton: None,
            waiting: vec![false; n],
            finished: vec![false; n],
            blocked: vec![false; n],
            prefix: prefix.to_vec(),
            decisions: vec![],
            trace_len: 0,
            progress: 0,
            diverged: false,
            blocked_events: 0,
        }),
        cv: Condvar::new(),
    });
    *SCHED.lock().unwrap() = Some(s.clone());
    verif_hooks::set_callback(Some(hook));
    let mut hs = vec![];
    for (t, prog) in programs.iter().enumerate() {
        let s = s.clone();
        let calls: Vec<Call> = prog.iter().map(|&i| a[i].clone()).collect();
        hs.push(std::thread::spawn(move || {
            MY_ID.with(|c| c.set(Some(t)));
            {
                let st = s.m.lock().unwrap();
                wait_for_baton(&s, st, t);
            }
            let mut out = vec![];
            for c in &calls {
                out.push(run_call(c));
            }
            let mut st = s.m.lock().unwrap();
            st.finished[t] = true;
            st.progress += 1;
            if st.baton == Some(t) {
                decide(&mut st, t);
            }
            s.cv.notify_all();
            MY_ID.with(|c| c.set(None));
            out
        }));
    }
    // start: wait until every thread is parked, then take the first decision
    {
        let mut st = s.m.lock().unwrap();
        while !st.waiting.iter().all(|w| *w) {
            let (g, _) = s.cv.wait_timeout(st, Duration::from_millis(20)).unwrap();
            st = g;
        }
        // the first decision has no running thread
        let list = enabled_list(&st, None);
        let d = st.decisions.len();
        let choice = if d < st.prefix.len() {
            let c = st.prefix[d];
            if c >= list.len() {
                st.diverged = true;
                0
            } else {
                c
            }
        } else {
            0
        };
        st.decisions.push((choice, list.len(), false, list[choice]));
        st.baton = Some(list[choice]);
        s.cv.notify_all();
    }
    let results: Vec<Vec<String>> = hs.into_iter().map(|h| h.join().unwrap_or_else(|_| vec!["panic:thread".into()])).collect();
    verif_hooks::set_callback(None);
    *SCHED.lock().unwrap() = None;
    let st = s.m.lock().unwrap();
    RunResult { results, decisions: st.decisions.clone(), trace_len: st.trace_len, diverged: st.diverged, blocked_events: st.blocked_events }
}

struct Explorer<'a> {
    programs: &'a [Vec<usize>],
    reference: &'a [String],
    bound: usize,
    schedules: u64,
    points: u64,
    max_points: usize,
    blocked_events: usize,
    outcomes: HashSet<String>,
    failures: Vec<(Vec<usize>, String)>,
    deadline: Instant,
    truncated: bool,
}

impl Explorer<'_> {
    fn explore(&mut self, prefix: Vec<usize>) -> Result<(), String> {
        if Instant::now() > self.deadline {
            self.truncated = true;
            return Ok(());
        }
        let x = run_schedule(self.programs, &prefix);
        if x.diverged {
            return Err(format!("divergence while replaying schedule prefix {prefix:?} for programs {:?}", self.programs));
        }
        self.schedules += 1;
        self.points += x.decisions.len() as u64;
        self.max_points = self.max_points.max(x.decisions.len());
        self.blocked_events += x.blocked_events;
        self.outcomes.insert(format!("{:?}", x.results));
        // oracle: every call returns what it returns alone in a fresh process
        for (t, prog) in self.programs.iter().enumerate() {
            for (k, &ci) in prog.iter().enumerate() {
                if x.results[t].get(k) != Some(&self.reference[ci]) {
                    let choices: Vec<usize> = x.decisions.iter().map(|d| d.0).collect();
                    self.failures.push((
                        choices,
                        format!(
                            "thread {t} call #{k} ({}) returned {} but alone in a fresh process it returns {}",
                            alphabet()[ci].name,
                            esc(x.results[t].get(k).map(|s| s.as_str()).unwrap_or("<nothing>")),
                            esc(&self.reference[ci])
                        ),
                    ));
                    return Ok(()); // one counterexample per exploration is enough; it is the one with the fewest preemptions
                }
            }
        }
        if !self.failures.is_empty() {
            return Ok(());
        }
        // children: deviate from the default at every later decision, within the preemption bound
        let choices: Vec<usize> = x.decisions.iter().map(|d| d.0).collect();
        let mut preemptions = 0usize;
        for (i, d) in x.decisions.iter().enumerate() {
            let (choice, n_enabled, running_enabled, _) = *d;
            if i >= prefix.len() {
                let cost = preemptions + if running_enabled { 1 } else { 0 };
                if cost <= self.bound {
                    for alt in 1..n_enabled {
                        let mut p = choices[..i].to_vec();
                        p.push(alt);
                        self.explore(p)?;
                        if !self.failures.is_empty() || self.truncated {
                            return Ok(());
                        }
                    }
                }
            }
            if running_enabled && choice != 0 {
                preemptions += 1;
            }
        }
        Ok(())
    }
}

/// `tyv c17-sched <bound> <budget_s> <ref.json> <prog;prog;...> ...`: explore schedules of each program set.
pub fn worker_sched(args: &[String]) -> i32 {
    let bound: usize = args[0].parse().unwrap();
    let budget: u64 = args[1].parse().unwrap();
    let reference: Vec<String> = serde_json::from_str(&std::fs::read_to_string(&args[2]).unwrap()).unwrap();
    let mut out = vec![];
    let worker_deadline = Instant::now() + Duration::from_secs(budget);
    for set in &args[3..] {
        let programs: Vec<Vec<usize>> = set.split(';').map(|p| p.split(',').filter(|x| !x.is_empty()).map(|x| x.parse().unwrap()).collect()).collect();
        // determinism: the default schedule twice, and one deviating schedule twice, must agree point for point
        let a = run_schedule(&programs, &[]);
        let b = run_schedule(&programs, &[]);
        if a.decisions == b.decisions && a.results != b.results {
            // the same schedule, decision for decision, and different results: the harness owns every
            // scheduling choice, so the difference comes from the subject (e.g. an order taken from a
            // randomly seeded hash container). That is a violation, not a machinery failure.
            out.push(json!({
                "programs": set, "bound": bound, "schedules": 2, "decisions": a.decisions.len() + b.decisions.len(), "max_decisions_per_schedule": a.decisions.len(),
                "distinct_outcomes": 2, "blocked_events": 0, "truncated": false,
                "failures": [json!({"schedule": Vec::<usize>::new(), "message": format!("the default schedule run twice, decision for decision identical, returned different results: {:?} vs {:?}", a.results, b.results)})],
            }));
            continue;
        }
        if a.decisions != b.decisions {
            eprintln!("MACHINERY: replaying the default schedule of {set} twice gave different traces ({} vs {} decisions)", a.decisions.len(), b.decisions.len());
            return 2;
        }
        let mut ex = Explorer {
            programs: &programs,
            reference: &reference,
            bound,
            schedules: 0,
            points: 0,
            max_points: 0,
            blocked_events: 0,
            outcomes: HashSet::new(),
            failures: vec![],
            deadline: worker_deadline,
            truncated: false,
        };
        if let Err(e) = ex.explore(vec![]) {
            eprintln!("MACHINERY: {e}");
            return 2;
        }
        out.push(json!({
            "programs": set, "bound": bound, "schedules": ex.schedules, "decisions": ex.points, "max_decisions_per_schedule": ex.max_points,
            "distinct_outcomes": ex.outcomes.len(), "blocked_events": ex.blocked_events, "truncated": ex.truncated,
            "failures": ex.failures.iter().map(|(c, m)| json!({"schedule": c, "message": m})).collect::<Vec<_>>(),
        }));
    }
    println!("{}", Value::Array(out));
    0
}

// ------------------------------------------------------------------------------------ driver

pub fn run(tier: &str, seed: u64) -> i32 {
    let start = Instant::now();
    let thorough = tier == "thorough";
    let a = alphabet();
    let n = a.len();
    let mut failures: Vec<Failure> = vec![];
    let mut transitions: u64 = 0;
    let mut states: u64 = 0;
    let mut samples: Vec<Value> = vec![];
    let mut assumptions = vec![];
    let fail = |failures: &mut Vec<Failure>, clause: &str, sig: String, detail: String, extra: Value| {
        failures.push(Failure { property: "C17".into(), clause: clause.into(), signature: format!("C17|{clause}|{sig}"), input: String::new(), cfg: None, detail, derivation: sig.clone(), extra, count: 1 });
    };

    // ---- 1. fresh processes: every call alone, 3 processes each
    let mut reference: Vec<String> = vec![];
    for i in 0..n {
        let mut outs = vec![];
        for _ in 0..3 {
            match sub(&["c17-one".into(), i.to_string()]) {
                Ok(v) => outs.push(v[0].as_str().unwrap_or("").to_string()),
                Err(e) => {
                    eprintln!("MACHINERY: {e}");
                    return 2;
                }
            }
            transitions += 1;
        }
        if outs.iter().any(|o| *o != outs[0]) {
            fail(&mut failures, "differs-across-processes", format!("call={}", a[i].name), format!("call {} returned different results in fresh processes: {:?}", a[i].name, outs), json!({"call": i}));
        }
        reference.push(outs[0].clone());
    }
    states += n as u64;
    let ref_dir = std::env::temp_dir().join("tyv-c17");
    let ref_dir = ref_dir.as_path();
    let _ = std::fs::create_dir_all(ref_dir);
    let ref_path = ref_dir.join(format!("ref-{}.json", std::process::id()));
    std::fs::write(&ref_path, serde_json::to_string(&reference).unwrap()).unwrap();

    // ---- 2. histories (each in a fresh process), BFS by length
    let max_len = 3;
    let modes = 3;
    let mut hist_count = 0u64;
    let pool = std::thread::available_parallelism().map(|n| n.get()).unwrap_or(8);
    let mut histories: Vec<Vec<usize>> = vec![];
    let mut cur: Vec<Vec<usize>> = vec![vec![]];
    for _ in 0..max_len {
        let mut next = vec![];
        for h in &cur {
            for i in 0..n {
                let mut g = h.clone();
                g.push(i);
                next.push(g);
            }
        }
        histories.extend(next.iter().cloned());
        cur = next;
    }
    // quick: all histories of length <= 2 in all modes, length 3 over the colliding half of the alphabet; thorough: all
    let colliding: Vec<usize> = (0..n).filter(|&i| !matches!(a[i].name, "doc_reorder" | "import_off" | "flat_w0" | "range_all" | "comment" | "chain_short" | "import_on" | "import_ties")).collect();
    let histories: Vec<Vec<usize>> = histories.into_iter().filter(|h| thorough || h.len() <= 2 || h.iter().all(|i| colliding.contains(i))).collect();
    let jobs: Vec<(usize, Vec<usize>)> = (0..modes).flat_map(|m| histories.iter().map(move |h| (m, h.clone()))).collect();
    let next_job = AtomicUsize::new(0);
    let hist_fail: Mutex<Vec<(usize, Vec<usize>, String)>> = Mutex::new(vec![]);
    let machinery_err = AtomicBool::new(false);
    std::thread::scope(|sc| {
        for _ in 0..pool {
            sc.spawn(|| loop {
                let j = next_job.fetch_add(1, Ordering::Relaxed);
                if j >= jobs.len() {
                    break;
                }
                let (mode, h) = &jobs[j];
                let hs = h.iter().map(|x| x.to_string()).collect::<Vec<_>>().join(",");
                match sub(&["c17-hist".into(), mode.to_string(), hs]) {
                    Ok(v) => {
                        for (k, &ci) in h.iter().enumerate() {
                            let got = v[k].as_str().unwrap_or("");
                            if got != reference[ci] {
                                hist_fail.lock().unwrap().push((
                                    *mode,
                                    h.clone(),
                                    format!("call #{k} ({}) of history {:?} (mode {mode}) returned {} but alone it returns {}", a[ci].name, h.iter().map(|&i| a[i].name).collect::<Vec<_>>(), esc(got), esc(&reference[ci])),
                                ));
                                break;
                            }
                        }
                    }
                    Err(e) => {
                        eprintln!("MACHINERY: {e}");
                        machinery_err.store(true, Ordering::Relaxed);
                    }
                }
            });
        }
    });
    if machinery_err.load(Ordering::Relaxed) {
        return 2;
    }
    for (mode, h) in &jobs {
        hist_count += 1;
        transitions += h.len() as u64;
        let _ = mode;
    }
    states += histories.len() as u64;
    // minimal failing histories only: a failing history with a failing proper prefix/suffix-free sub-history is explained
    let mut hf = hist_fail.into_inner().unwrap();
    hf.sort_by_key(|f| (f.1.len(), f.0, f.1.clone()));
    let mut reported: Vec<Vec<usize>> = vec![];
    for (mode, h, msg) in hf {
        let explained = reported.iter().any(|r| r.len() < h.len() && h.windows(r.len()).any(|w| w == r.as_slice()));
        if explained {
            continue;
        }
        reported.push(h.clone());
        let names: Vec<&str> = h.iter().map(|&i| a[i].name).collect();
        fail(&mut failures, "history-dependent", format!("history={}|mode={mode}", names.join(">")), msg, json!({"history": h, "mode": mode}));
    }
    samples.push(json!({"kind": "history", "mode": 2, "calls": ["flavor", "flat", "off"], "meaning": "three calls, alternately on two persistent threads, in one fresh process; each result compared with the call made alone"}));

    // ---- 3. schedules
    let budget_s: u64 = std::env::var("VERIF_WALL_CAP_S").ok().and_then(|s| s.parse().ok()).unwrap_or(if thorough { 10 * 60 } else { 240 });
    let small: Vec<usize> = (0..n).filter(|&i| a[i].text.len() < 75).collect();
    let mut sets: Vec<(usize, String)> = vec![]; // (bound, programs)
    // 2 threads x 1 call: all unordered pairs over the whole alphabet; the preemption bound depends
    // on the number of scheduling points (a deep or long document has hundreds of them)
    for i in 0..n {
        for j in i..n {
            if a[i].text.len() > 2000 || a[j].text.len() > 2000 {
                continue; // the pyramid has ~10^5 scheduling points; it takes part in the histories only
            }
            let big = !small.contains(&i) || !small.contains(&j);
            let bound = match (big, thorough) {
                (false, false) => 2,
                (false, true) => 3,
                (true, false) => 1,
                (true, true) => 2,
            };
            sets.push((bound, format!("{i};{j}")));
        }
    }
    // 2 threads x 2 calls over the small colliding texts, bound 1 (thorough 2)
    for &i in &small {
        for &j in &small {
            if i < j {
                sets.push((if thorough { 2 } else { 1 }, format!("{i},{j};{j},{i}")));
            }
        }
    }
    // 3 threads x 1 call over the small colliding texts
    for &i in &small {
        for &j in &small {
            for &k in &small {
                if i <= j && j <= k && (thorough || (i + j + k) % 5 == 0) {
                    sets.push((if thorough { 2 } else { 1 }, format!("{i};{j};{k}")));
                }
            }
        }
    }
    // distribute over worker processes (the scheduler is process-global)
    let chunks: Vec<Vec<(usize, String)>> = {
        let mut c: Vec<Vec<(usize, String)>> = (0..pool).map(|_| vec![]).collect();
        for (k, s) in sets.iter().enumerate() {
            c[k % pool].push(s.clone());
        }
        c
    };
    let sched_out: Mutex<Vec<Value>> = Mutex::new(vec![]);
    std::thread::scope(|sc| {
        for chunk in &chunks {
            sc.spawn(|| {
                // group by bound
                let mut bounds: Vec<usize> = chunk.iter().map(|c| c.0).collect();
                bounds.sort();
                bounds.dedup();
                for b in bounds {
                    let progs: Vec<String> = chunk.iter().filter(|c| c.0 == b).map(|c| c.1.clone()).collect();
                    if progs.is_empty() {
                        continue;
                    }
                    let mut args = vec!["c17-sched".to_string(), b.to_string(), budget_s.to_string(), ref_path.display().to_string()];
                    args.extend(progs);
                    match sub(&args) {
                        Ok(v) => sched_out.lock().unwrap().extend(v.as_array().cloned().unwrap_or_default()),
                        Err(e) => {
                            eprintln!("MACHINERY: {e}");
                            machinery_err.store(true, Ordering::Relaxed);
                        }
                    }
                }
            });
        }
    });
    let _ = std::fs::remove_file(&ref_path);
    if machinery_err.load(Ordering::Relaxed) {
        return 2;
    }
    let sched_out = sched_out.into_inner().unwrap();
    let mut schedules = 0u64;
    let mut decisions = 0u64;
    let mut truncated = 0u64;
    let mut max_outcomes = 0u64;
    let mut per_bound: std::collections::BTreeMap<u64, (u64, u64)> = Default::default();
    for v in &sched_out {
        let s = v["schedules"].as_u64().unwrap_or(0);
        schedules += s;
        decisions += v["decisions"].as_u64().unwrap_or(0);
        max_outcomes = max_outcomes.max(v["distinct_outcomes"].as_u64().unwrap_or(0));
        if v["truncated"].as_bool().unwrap_or(false) {
            truncated += 1;
        }
        let e = per_bound.entry(v["bound"].as_u64().unwrap_or(0)).or_default();
        e.0 += 1;
        e.1 += s;
        for f in v["failures"].as_array().cloned().unwrap_or_default() {
            let progs = v["programs"].as_str().unwrap_or("");
            let names: Vec<String> = progs.split(';').map(|p| p.split(',').map(|x| a[x.parse::<usize>().unwrap()].name).collect::<Vec<_>>().join(",")).collect();
            fail(
                &mut failures,
                "schedule-dependent",
                format!("threads={}", names.join(" || ")),
                format!("{} under schedule {}", f["message"].as_str().unwrap_or(""), f["schedule"]),
                json!({"programs": progs, "schedule": f["schedule"]}),
            );
        }
    }
    if let Some(v) = sched_out.iter().find(|v| (v["programs"].as_str().unwrap_or("").len() as u64 + seed) % 3 == 0).or(sched_out.first()) {
        samples.push(json!({"kind": "schedule exploration", "case": v}));
    }
    transitions += decisions;
    states += schedules;

    // static census (assumption, not a verdict)
    let census = std::process::Command::new("grep")
        .args(["-rnE", r"^\s*(pub(\([a-z]+\))?\s+)?static\s|thread_local!|unsafe\s*(\{|fn|impl)|Mutex<|RwLock<|Atomic[A-Z]|RefCell<|OnceLock<|LazyLock<|OnceCell<", &format!("{}/crates/typstyle-core/src", std::env::var("VERIF_REPO").unwrap_or_else(|_| "/repo".into())), "--include=*.rs", "-l"])
        .output()
        .map(|o| String::from_utf8_lossy(&o.stdout).lines().filter(|l| !l.ends_with("verif_hooks.rs")).map(|s| s.to_string()).collect::<Vec<_>>())
        .unwrap_or_default();
    assumptions.push(format!("census of static / thread_local! / unsafe / Mutex / Atomic / RefCell in typstyle-core outside verif_hooks.rs: files = {:?}", census));
    assumptions.push("schedules interleave at hook granularity (conversion entry points and API phase boundaries); code between two points runs without interleaving; weak-memory effects are not modelled".into());
    assumptions.push("a thread that is handed the baton and makes no progress for 5 s while all others wait is modelled as blocked on an OS lock".into());

    let mut cov = Coverage {
        states,
        transitions,
        evaluations: hist_count + schedules + (n as u64 * 3),
        distinct_nontrivial: histories.iter().filter(|h| h.len() >= 2).count() as u64 + sets.len() as u64,
        rule: format!(
            "call alphabet of {n} calls (same tree shape with different attributes, same text under different configs, erroneous text, import reordering on/off, range formatting on a shared Source); (1) each call alone in 3 fresh processes; (2) every history of <= {max_len} calls x 3 thread-assignment modes, each in a fresh process (quick: length 3 over the colliding part of the alphabet); (3) DFS over all schedules of 2-3 real threads at hook points within a preemption bound. Oracle: every result equals the result of the same call alone in a fresh process. Non-trivial = histories of length >= 2 and thread program sets"
        ),
        samples,
        exhaustive: truncated == 0,
        completed_levels: per_bound.iter().map(|(b, (sets, s))| format!("preemption bound {b}: {sets} program sets, {s} schedules")).collect(),
        incomplete_level: if truncated > 0 { Some(format!("{truncated} program sets hit their time budget")) } else { None },
        extra: Default::default(),
    };
    cov.extra.insert("fresh_process_runs".into(), json!(n * 3));
    cov.extra.insert("histories".into(), json!(histories.len()));
    cov.extra.insert("history_runs".into(), json!(hist_count));
    cov.extra.insert("schedule_program_sets".into(), json!(sets.len()));
    cov.extra.insert("schedules_explored".into(), json!(schedules));
    cov.extra.insert("scheduling_decisions".into(), json!(decisions));
    cov.extra.insert("max_distinct_outcomes_per_program_set".into(), json!(max_outcomes));
    let out = Outcome { property: "C17".into(), tier: tier.into(), seed, coverage: cov, assumptions, failures, wall_s: start.elapsed().as_secs_f64() };
    report::finish(out, &|_| false)
}

/// `./check replay <file>` for C17: re-run the recorded history or schedule.
pub fn replay(v: &Value, path: &str) -> i32 {
    let a = alphabet();
    let reference: Vec<String> = (0..a.len())
        .map(|i| sub(&["c17-one".into(), i.to_string()]).ok().and_then(|v| v[0].as_str().map(|s| s.to_string())).unwrap_or_default())
        .collect();
    let mut bad = false;
    if let Some(h) = v["extra"]["history"].as_array() {
        let calls: Vec<usize> = h.iter().map(|x| x.as_u64().unwrap_or(0) as usize).collect();
        let mode = v["extra"]["mode"].as_u64().unwrap_or(0);
        let hs = calls.iter().map(|x| x.to_string()).collect::<Vec<_>>().join(",");
        println!("replay C17 history {:?} mode {mode}", calls.iter().map(|&i| a[i].name).collect::<Vec<_>>());
        match sub(&["c17-hist".into(), mode.to_string(), hs]) {
            Ok(r) => {
                for (k, &ci) in calls.iter().enumerate() {
                    if r[k].as_str() != Some(reference[ci].as_str()) {
                        println!("FAIL call #{k} ({}) returned {} but alone it returns {}", a[ci].name, esc(r[k].as_str().unwrap_or("")), esc(&reference[ci]));
                        bad = true;
                    }
                }
            }
            Err(e) => {
                eprintln!("MACHINERY: {e}");
                return 2;
            }
        }
    } else if let Some(p) = v["extra"]["programs"].as_str() {
        let programs: Vec<Vec<usize>> = p.split(';').map(|q| q.split(',').filter(|x| !x.is_empty()).map(|x| x.parse().unwrap()).collect()).collect();
        let schedule: Vec<usize> = v["extra"]["schedule"].as_array().map(|s| s.iter().map(|x| x.as_u64().unwrap_or(0) as usize).collect()).unwrap_or_default();
        println!("replay C17 schedule {schedule:?} of programs {p}");
        let x = run_schedule(&programs, &schedule);
        if x.diverged {
            eprintln!("MACHINERY: the recorded schedule no longer fits the code (divergence)");
            return 2;
        }
        for (t, prog) in programs.iter().enumerate() {
            for (k, &ci) in prog.iter().enumerate() {
                if x.results[t].get(k) != Some(&reference[ci]) {
                    println!("FAIL thread {t} call #{k} ({}) returned {} but alone it returns {}", a[ci].name, esc(x.results[t].get(k).map(|s| s.as_str()).unwrap_or("")), esc(&reference[ci]));
                    bad = true;
                }
            }
        }
    } else {
        println!("replay C17: {}", v["detail"].as_str().unwrap_or(""));
    }
    if bad {
        println!("VIOLATION property=C17 replay={path}");
        1
    } else {
        println!("PASS");
        0
    }
}
