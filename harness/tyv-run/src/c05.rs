//! E5 / C05: totality. Exhaustive string families under subprocess isolation: a stack overflow or
//! allocation failure aborts the process and a hang cannot be interrupted in-thread, so every chunk
//! of cases runs in a worker process of this binary; the parent bisects a chunk that dies or hangs.

use std::process::{Command, Stdio};
use std::sync::atomic::{AtomicBool, AtomicUsize, Ordering};
use std::sync::Mutex;
use std::time::{Duration, Instant};

use serde_json::{json, Value};
use tyv_model::model::{Model, Size};
use tyv_model::report::{self, Coverage, Failure, Outcome};
use tyv_model::subject::{guarded, Cfg, Subject};
use tyv_model::sweep;
use tyv_model::syntax::{self, esc};

use crate::Real;

pub const SIGMA: [&str; 38] = [
    "#", "(", ")", "[", "]", "{", "}", "$", "*", "_", "`", "\"", "/", "\\", "\n", " ", "a", "1", ".", ",", ":", "=", "-", "+", "<", ">", "@", "'", "&",
    "^", ";", "|", "~", "\r", "é", "\u{2028}", "!", "%",
];

pub const TOKENS: [&str; 42] = [
    "#let ", "#", "x", "=", "(", ")", ",", ":", "..", "=>", "[", "]", "{", "}", "$", "_", "^", ".", "if ", "else ", "for ", "in ", "import ", "\"s\"",
    "//c\n", "/*c*/", " ", "\n", "<a>", "@r", "https://a.b", "`r`", "```\nr\n```", "- ", "+ ", "/ t: ", "= ", "\\", "*", "#!s\n", "not ", "1.5em",
];

const EXTREME_WIDTHS: [usize; 6] = [0, 1, 2, 79, 80, usize::MAX / 2];
const EXTREME_TABS: [usize; 4] = [0, 1, 2, 64];

/// number of strings of length 1..=n over an alphabet of size k, plus the empty string
fn count(k: usize, n: usize) -> usize {
    let mut total = 1;
    let mut p = 1;
    for _ in 0..n {
        p *= k;
        total += p;
    }
    total
}

/// idx -> string (shortlex order)
fn nth(alpha: &[&str], mut idx: usize) -> String {
    let k = alpha.len();
    let mut len = 0;
    let mut block = 1;
    while idx >= block {
        idx -= block;
        block *= k;
        len += 1;
    }
    let mut digits = vec![0; len];
    for d in digits.iter_mut().rev() {
        *d = idx % k;
        idx /= k;
    }
    digits.iter().map(|&d| alpha[d]).collect()
}

const LADDERS: [(&str, &str, &str, &str); 18] = [
    ("chain_call_nest", "#", "a.b.c(", ")"),
    ("table_nest", "#", "table(columns: 2, ", ", ..d)"),
    ("paren", "#(", "1", ")"),
    ("call", "#f(", "1", ")"),
    ("array", "#(1, ", "2", ")"),
    ("dict", "#(k: ", "1", ")"),
    ("code_block", "#{", "1", "}"),
    ("content_block", "#[", "a", "]"),
    ("closure", "#let v = (x => ", "1", ")"),
    ("unary", "#(-", "1", ")"),
    ("binary_right", "#(1 + (", "1", "))"),
    ("math_paren", "$(", "x", ")$"),
    ("math_call", "$f(", "x", ")$"),
    ("strong_emph", "*_", "a", "_*"),
    ("content_hash", "#[#", "a", "]"), // repeated unit is "[#" .. "]"
    ("list", "- ", "a", ""),
    ("binary_left_chain", "#(1", " + 1", ")"),
    ("dot_chain", "#a", ".b", ""),
];

fn ladder(i: usize, depth: usize) -> String {
    let (name, pre, atom, post) = LADDERS[i];
    match name {
        "paren" | "call" | "array" | "dict" | "code_block" | "content_block" | "unary" | "math_paren" | "math_call" => {
            // nest the bracket part; the first char(s) up to the opener are the prefix
            let (head, unit_open, unit_close): (&str, &str, &str) = match name {
                "paren" => ("#", "(", ")"),
                "call" => ("#", "f(", ")"),
                "array" => ("#", "(1, ", ")"),
                "dict" => ("#", "(k: ", ")"),
                "code_block" => ("#", "{", "}"),
                "content_block" => ("#", "[#", "]"),
                "unary" => ("#(", "-", ""),
                "math_paren" => ("$", "(", ")"),
                _ => ("$", "f(", ")"),
            };
            let tail = match name {
                "unary" => ")",
                "math_paren" | "math_call" => "$",
                _ => "",
            };
            let inner = if name == "content_block" { "[a]" } else { atom };
            format!("{head}{}{inner}{}{tail}", unit_open.repeat(depth), unit_close.repeat(depth))
        }
        "chain_call_nest" | "table_nest" => format!("{pre}{}1{}", atom.repeat(depth), post.repeat(depth)),
        "closure" => format!("#let v = {}1", "x => ".repeat(depth)),
        "binary_right" => format!("#({}1{})", "1 + (".repeat(depth), ")".repeat(depth)),
        "strong_emph" => format!("{}a{}", "*_".repeat(depth), "_*".repeat(depth)),
        "content_hash" => format!("#{}a{}", "[#".repeat(depth.saturating_sub(1)) + "[", "]".repeat(depth)),
        "list" => {
            let mut s = String::new();
            for d in 0..depth {
                s.push_str(&" ".repeat(2 * d));
                s.push_str("- a\n");
            }
            s
        }
        "binary_left_chain" => format!("{pre}{}{post}", atom.repeat(depth)),
        _ => format!("{pre}{}{post}", atom.repeat(depth)),
    }
}

struct Family {
    name: String,
    size: usize,
    gen: Box<dyn Fn(usize) -> String + Sync + Send>,
}

fn families(thorough: bool) -> Vec<Family> {
    let n_str = if thorough { 5 } else { 4 };
    let n_tok = if thorough { 5 } else { 4 };
    let mut v = vec![
        Family { name: format!("strings <= {n_str} over a 38-character structural alphabet"), size: count(SIGMA.len(), n_str), gen: Box::new(|i| nth(&SIGMA, i)) },
        // the first 28 tokens are the code-centred core; the other 14 add markup, labels, raw, shebang
        Family { name: format!("token strings <= {n_tok} over the 28 core tokens"), size: count(28, n_tok), gen: Box::new(|i| nth(&TOKENS[..28], i)) },
        Family { name: format!("token strings <= {} over all 42 tokens", n_tok - 1), size: count(TOKENS.len(), n_tok - 1), gen: Box::new(|i| nth(&TOKENS, i)) },
    ];
    // single-character damages of the canonical skeleton instances
    let m = Model::new();
    let ctxs = ["doc", "hash", "let", "codeblock", "arg", "math_i", "math_b", "mixed", "item", "content_ml", "nested_code", "nested_code3", "math_hash", "heading", "strong", "pattern", "param"];
    let ks: &[usize] = if thorough { &[0, 1, 2] } else { &[0, 1] };
    let mut bases: Vec<String> = sweep::skeletons(&m, &ctxs, ks, &[Size::Short]).iter().map(|sk| m.instantiate(sk)).collect();
    bases.sort();
    bases.dedup();
    if thorough {
        // every 5th k=2 skeleton keeps the damage family within budget
        let k01: Vec<String> = sweep::skeletons(&m, &ctxs, &[0, 1], &[Size::Short]).iter().map(|sk| m.instantiate(sk)).collect();
        bases = bases.into_iter().enumerate().filter(|(i, b)| i % 5 == 0 || k01.contains(b)).map(|x| x.1).collect();
    }
    let repl = ['(', ')', '[', ']', '{', '}', '$', '"', '#', '*', '`', '\\'];
    let mut damaged: Vec<String> = vec![];
    for t in &bases {
        let idx: Vec<usize> = t.char_indices().map(|x| x.0).collect();
        for &i in &idx {
            let c = t[i..].chars().next().unwrap();
            let end = i + c.len_utf8();
            damaged.push(format!("{}{}", &t[..i], &t[end..]));
            damaged.push(format!("{}{}{}", &t[..end], c, &t[end..]));
            for r in repl {
                if r != c {
                    damaged.push(format!("{}{}{}", &t[..i], r, &t[end..]));
                }
            }
        }
        damaged.push(t.clone());
    }
    damaged.sort();
    damaged.dedup();
    let nd = damaged.len();
    v.push(Family { name: "single-character damages of canonical skeleton instances".into(), size: nd, gen: Box::new(move |i| damaged[i].clone()) });
    // unicode whitespace / newline characters in every small structural context
    let ws = ['\u{b}', '\u{c}', '\u{85}', '\u{a0}', '\u{1680}', '\u{2000}', '\u{2028}', '\u{2029}', '\u{202f}', '\u{205f}', '\u{3000}', '\u{feff}', '\u{200b}', '\r', '\t', '\0'];
    let ctx = ["#f(a,§b)", "#{a§b}", "$a§b$", "a§b", "- a§b", "= a§b", "#let a§= 1", "//c§x", "/*c§*/x", "#[a§]", "\"a§b\"", "`a§b`", "§", "a§", "§a", "#a.§b", "$f(a§,b)$", "#(a:§1)", "*a§*", "a§§b", "/* a\n§b */", "/*a\n §b\n§ c*/", "#f(/* a\n§§b */ x)", "\"a\n§b\"", "```\n§x\n```", "- a\n§b", "- a\n §- b"];
    let mut uni = vec![];
    for c in ctx {
        for w in ws {
            uni.push(c.replace('§', &w.to_string()));
        }
    }
    let nu = uni.len();
    v.push(Family { name: "Unicode whitespace/newline characters in structural contexts".into(), size: nu, gen: Box::new(move |i| uni[i].clone()) });
    // numeric literals at the limits of every integer width, wherever the formatter reads or reprints a number
    // (the column count of a table steers its layout)
    let nums = [
        "0", "1", "2", "3", "7", "255", "256", "65535", "65536", "1000000", "2147483647", "2147483648", "4294967295", "4294967296", "1000000000000",
        "9007199254740993", "9223372036854775807", "9223372036854775808", "18446744073709551615", "18446744073709551616",
        "99999999999999999999999999999", "-1", "-9223372036854775808", "1e308", "1e309", "1e-400", "1.5", "2.0", "00", "007", "0x7fffffffffffffff",
        "0xffffffffffffffff", "0b1111111111111111111111111111111111111111111111111111111111111111", "0o7", "1.", ".5", "1e3", "1_000",
    ];
    let spots = [
        "#table(columns: §, [a], [b], [c])", "#grid(columns: §, [a], [b])", "#table(columns: (§,), [a])", "#table(columns: §)", "#table(columns: §, table.header[a], [b])",
        "#table(columns: 2, rows: §, [a], [b])", "#table(§, [a], [b])", "#table(columns: §, ..c)", "$mat(1, 2; 3, §)$", "#let v = §", "$§$", "#f(§)", "#(§).f", "#enum(start: §)[a]",
        "§. a", "#h(§pt)", "#(§em, §%)", "#range(§)", "#a.at(§)", "#(§ + §)", "#g(columns: §)[a]", "foo § bar", "#table(columns: §, [a], [b]) foo",
    ];
    let mut numeric = vec![];
    for sp in spots {
        for n in nums {
            numeric.push(sp.replace('§', n));
        }
    }
    let nn = numeric.len();
    v.push(Family { name: "numeric literals at integer-width limits wherever the formatter reads or reprints a number".into(), size: nn, gen: Box::new(move |i| numeric[i].clone()) });
    v
}

fn check_case(subject: &dyn Subject, text: &str, fails: &mut Vec<(String, String, Cfg)>, calls: &mut u64) {
    let erroneous = syntax::parse(text).erroneous();
    let mut first_ok: Option<String> = None;
    // the grid of width x indent extremes with the default blank-line bound, then the extremes of
    // blank_lines_upper_bound and of reorder_import_items at two widths
    let mut cfgs: Vec<Cfg> = vec![];
    for &w in &EXTREME_WIDTHS {
        for &t in &EXTREME_TABS {
            cfgs.push(Cfg { max_width: w, tab_spaces: t, reorder: false, blank: 2 });
        }
    }
    for w in [0usize, 80] {
        for blank in [0usize, 1, usize::MAX] {
            cfgs.push(Cfg { max_width: w, tab_spaces: 2, reorder: true, blank });
        }
    }
    {
        for cfg in cfgs {
            let (w, t) = (cfg.max_width, cfg.tab_spaces);
            *calls += 1;
            match guarded(|| subject.format(text, &cfg)) {
                Err(m) => {
                    fails.push(("panic".into(), format!("panic: {m}"), cfg));
                    return;
                }
                Ok(Ok(o)) => {
                    if erroneous {
                        fails.push(("accepted-erroneous-input".into(), format!("returned {} for a text with syntax errors", esc(&o)), cfg));
                        return;
                    }
                    if w == 80 && t == 2 && cfg.blank == 2 {
                        first_ok = Some(o);
                    }
                }
                Ok(Err(_)) => {
                    if !erroneous {
                        fails.push(("refused-wellformed-input".into(), "refused a text without syntax errors".into(), cfg));
                        return;
                    }
                }
            }
        }
    }
    // the convenience entry point: input unchanged when erroneous, F(x) otherwise
    for w in [80usize, 0] {
        *calls += 1;
        match guarded(|| subject.format_with_width(text, w)) {
            Err(m) => fails.push(("panic".into(), format!("format_with_width panicked: {m}"), Cfg::w(w))),
            Ok(o) => {
                if erroneous && o != text {
                    fails.push(("fallback-changes-input".into(), format!("format_with_width returned {} for an erroneous text", esc(&o)), Cfg::w(w)));
                } else if !erroneous && w == 80 && Some(&o) != first_ok.as_ref() {
                    fails.push(("fallback-differs-from-format".into(), format!("format_with_width returned {} but format_content {:?}", esc(&o), first_ok.as_ref().map(|s| esc(s))), Cfg::w(w)));
                }
            }
        }
    }
}

/// `tyv c05-worker <tier> <family> <from> <to>`: run the cases, print one JSON line.
pub fn worker(args: &[String]) -> i32 {
    let thorough = args[0] == "thorough";
    let fi: usize = args[1].parse().unwrap();
    let from: usize = args[2].parse().unwrap();
    let to: usize = args[3].parse().unwrap();
    let mut fams = families(thorough);
    let f = fams.swap_remove(fi);
    let subject = Real;
    let mut fails_out = vec![];
    let mut calls = 0u64;
    let mut wellformed = 0u64;
    let mut sample: Option<String> = None;
    // an 8 MiB stack like the main thread of a CLI
    let res = std::thread::Builder::new()
        .stack_size(8 << 20)
        .spawn(move || {
            for i in from..to.min(f.size) {
                let text = (f.gen)(i);
                if !syntax::parse(&text).erroneous() {
                    wellformed += 1;
                    if sample.is_none() && text.len() >= 3 {
                        sample = Some(text.clone());
                    }
                }
                let mut fails = vec![];
                check_case(&subject, &text, &mut fails, &mut calls);
                for (clause, detail, cfg) in fails {
                    fails_out.push(json!({"index": i, "clause": clause, "detail": detail, "cfg": cfg, "input": text}));
                }
            }
            (fails_out, calls, wellformed, sample)
        })
        .unwrap()
        .join();
    match res {
        Ok((fails, calls, wellformed, sample)) => {
            println!("{}", json!({"fails": fails, "calls": calls, "wellformed": wellformed, "sample": sample}));
            0
        }
        Err(_) => 3,
    }
}

/// `tyv c05-ladder <family> <depth> <parse|format>`: one ladder step in a fresh process, 8 MiB stack.
pub fn ladder_worker(args: &[String]) -> i32 {
    let fi: usize = args[0].parse().unwrap();
    let depth: usize = args[1].parse().unwrap();
    let what = args[2].clone();
    let text = ladder(fi, depth);
    let r = std::thread::Builder::new()
        .stack_size(8 << 20)
        .spawn(move || {
            let root = syntax::parse(&text);
            if what == "parse" {
                return json!({"erroneous": root.erroneous(), "bytes": text.len()});
            }
            let subject = Real;
            let mut out = vec![];
            for w in [0usize, 80] {
                let t0 = Instant::now();
                let r = guarded(|| subject.format(&text, &Cfg::w(w)));
                out.push(json!({"w": w, "ok": matches!(r, Ok(Ok(_))), "refused": matches!(r, Ok(Err(_))), "panic": r.as_ref().err(), "ms": t0.elapsed().as_millis() as u64}));
            }
            json!({"erroneous": root.erroneous(), "bytes": text.len(), "format": out})
        })
        .unwrap()
        .join();
    match r {
        Ok(v) => {
            println!("{v}");
            0
        }
        Err(_) => 3,
    }
}

enum ChunkResult {
    Ok(Value),
    Died(String),
    Hung,
}

fn run_chunk(tier: &str, fi: usize, from: usize, to: usize, timeout: Duration) -> ChunkResult {
    let mut child = match Command::new(std::env::current_exe().unwrap())
        .args(["c05-worker", tier, &fi.to_string(), &from.to_string(), &to.to_string()])
        .stdin(Stdio::null())
        .stdout(Stdio::piped())
        .stderr(Stdio::null())
        .spawn()
    {
        Ok(c) => c,
        Err(e) => return ChunkResult::Died(format!("spawn failed: {e}")),
    };
    let t0 = Instant::now();
    let mut stdout = child.stdout.take().unwrap();
    let reader = std::thread::spawn(move || {
        let mut s = String::new();
        use std::io::Read;
        let _ = stdout.read_to_string(&mut s);
        s
    });
    loop {
        match child.try_wait() {
            Ok(Some(status)) => {
                let s = reader.join().unwrap_or_default();
                if status.success() {
                    return match serde_json::from_str::<Value>(s.lines().last().unwrap_or("")) {
                        Ok(v) => ChunkResult::Ok(v),
                        Err(e) => ChunkResult::Died(format!("bad worker output: {e}")),
                    };
                }
                return ChunkResult::Died(format!("worker exit status {status}"));
            }
            Ok(None) => {
                if t0.elapsed() > timeout {
                    let _ = child.kill();
                    let _ = child.wait();
                    return ChunkResult::Hung;
                }
                std::thread::sleep(Duration::from_millis(5));
            }
            Err(e) => return ChunkResult::Died(format!("wait failed: {e}")),
        }
    }
}

pub fn run(tier: &str, seed: u64) -> i32 {
    let start = Instant::now();
    let thorough = tier == "thorough";
    let fams = families(thorough);
    let wall_cap = Duration::from_secs(std::env::var("VERIF_WALL_CAP_S").ok().and_then(|s| s.parse().ok()).unwrap_or(if thorough { 12 * 60 } else { 300 }));
    let pool = std::thread::available_parallelism().map(|n| n.get()).unwrap_or(8);
    let chunk = 20_000usize;
    let mut jobs: Vec<(usize, usize, usize)> = vec![];
    for (fi, f) in fams.iter().enumerate() {
        let mut a = 0;
        while a < f.size {
            jobs.push((fi, a, (a + chunk).min(f.size)));
            a += chunk;
        }
    }
    let next = AtomicUsize::new(0);
    let stop = AtomicBool::new(false);
    let failures: Mutex<Vec<Failure>> = Mutex::new(vec![]);
    let totals: Mutex<(u64, u64, u64, Vec<Value>)> = Mutex::new((0, 0, 0, vec![])); // cases, calls, wellformed, samples
    let done_per_family: Vec<AtomicUsize> = fams.iter().map(|_| AtomicUsize::new(0)).collect();
    std::thread::scope(|sc| {
        for _ in 0..pool {
            sc.spawn(|| loop {
                if start.elapsed() > wall_cap {
                    stop.store(true, Ordering::Relaxed);
                }
                if stop.load(Ordering::Relaxed) {
                    break;
                }
                let j = next.fetch_add(1, Ordering::Relaxed);
                if j >= jobs.len() {
                    break;
                }
                let (fi, from, to) = jobs[j];
                // process one range, bisecting on death / hang down to the single culprit
                let mut stack = vec![(from, to)];
                while let Some((a, b)) = stack.pop() {
                    // generous: 3 orders of magnitude above the normal cost of a case (~25 format calls of a few microseconds)
                    let timeout = Duration::from_millis(5_000 + (b - a) as u64 * 20);
                    match run_chunk(tier, fi, a, b, timeout) {
                        ChunkResult::Ok(v) => {
                            let mut t = totals.lock().unwrap();
                            t.0 += (b - a) as u64;
                            t.1 += v["calls"].as_u64().unwrap_or(0);
                            t.2 += v["wellformed"].as_u64().unwrap_or(0);
                            if let Some(s) = v["sample"].as_str() {
                                if t.3.len() < 6 && (a as u64 / 20_000 + seed) % 5 == 0 {
                                    t.3.push(json!({"family": fams[fi].name, "input": s, "configurations": EXTREME_WIDTHS.len() * EXTREME_TABS.len()}));
                                }
                            }
                            drop(t);
                            for f in v["fails"].as_array().cloned().unwrap_or_default() {
                                let input = f["input"].as_str().unwrap_or("").to_string();
                                let clause = f["clause"].as_str().unwrap_or("").to_string();
                                failures.lock().unwrap().push(Failure {
                                    property: "C05".into(),
                                    signature: format!("C05|{clause}|input={}", esc(&input)),
                                    clause,
                                    input,
                                    cfg: serde_json::from_value(f["cfg"].clone()).ok(),
                                    detail: f["detail"].as_str().unwrap_or("").to_string(),
                                    derivation: format!("{} #{}", fams[fi].name, f["index"]),
                                    extra: Value::Null,
                                    count: 1,
                                });
                            }
                            done_per_family[fi].fetch_add(b - a, Ordering::Relaxed);
                        }
                        r @ (ChunkResult::Died(_) | ChunkResult::Hung) => {
                            if b - a <= 1 {
                                let input = (fams[fi].gen)(a);
                                let (clause, detail) = match r {
                                    ChunkResult::Hung => ("hang".to_string(), "the worker process did not finish this single case within 5 s".to_string()),
                                    ChunkResult::Died(m) => ("abort".to_string(), format!("the worker process died on this case: {m}")),
                                    _ => unreachable!(),
                                };
                                failures.lock().unwrap().push(Failure {
                                    property: "C05".into(),
                                    signature: format!("C05|{clause}|input={}", esc(&input)),
                                    clause,
                                    input,
                                    cfg: None,
                                    detail,
                                    derivation: format!("{} #{a}", fams[fi].name),
                                    extra: Value::Null,
                                    count: 1,
                                });
                                totals.lock().unwrap().0 += 1;
                                done_per_family[fi].fetch_add(1, Ordering::Relaxed);
                            } else {
                                let mid = a + (b - a) / 2;
                                stack.push((mid, b));
                                stack.push((a, mid));
                            }
                        }
                    }
                }
            });
        }
    });

    // ---- nesting ladders, each step in its own process
    let mut ladder_rows = vec![];
    let required: Vec<usize> = vec![1, 2, 4, 8, 16, 32, 64, 128, 256, 512, 1024, 2048];
    let beyond: Vec<usize> = if thorough { vec![4096, 8192, 16384, 32768, 65536] } else { vec![4096, 16384] };
    let ladder_calls = AtomicUsize::new(0);
    let ladder_fail: Mutex<Vec<Failure>> = Mutex::new(vec![]);
    let ladder_rows_m: Mutex<Vec<Value>> = Mutex::new(vec![]);
    let nextl = AtomicUsize::new(0);
    let run_step = |fi: usize, depth: usize, what: &str| -> Result<Value, String> {
        let mut child = Command::new(std::env::current_exe().unwrap())
            .args(["c05-ladder", &fi.to_string(), &depth.to_string(), what])
            .stdin(Stdio::null())
            .stdout(Stdio::piped())
            .stderr(Stdio::null())
            .spawn()
            .map_err(|e| e.to_string())?;
        let t0 = Instant::now();
        loop {
            match child.try_wait() {
                Ok(Some(st)) => {
                    let mut s = String::new();
                    use std::io::Read;
                    let _ = child.stdout.take().unwrap().read_to_string(&mut s);
                    if st.success() {
                        return serde_json::from_str(s.lines().last().unwrap_or("")).map_err(|e| e.to_string());
                    }
                    return Err(format!("died: {st}"));
                }
                Ok(None) => {
                    if t0.elapsed() > Duration::from_secs(30) {
                        let _ = child.kill();
                        let _ = child.wait();
                        return Err("hang: no result within 30 s".into());
                    }
                    std::thread::sleep(Duration::from_millis(3));
                }
                Err(e) => return Err(e.to_string()),
            }
        }
    };
    std::thread::scope(|sc| {
        for _ in 0..pool {
            sc.spawn(|| loop {
                let fi = nextl.fetch_add(1, Ordering::Relaxed);
                if fi >= LADDERS.len() {
                    break;
                }
                let name = LADDERS[fi].0;
                let mut max_ok = 0;
                let mut parser_limit = 0;
                for &d in required.iter().chain(beyond.iter()) {
                    let hard = d <= 2048;
                    ladder_calls.fetch_add(1, Ordering::Relaxed);
                    let p = run_step(fi, d, "parse");
                    let parser_ok = matches!(&p, Ok(v) if v["erroneous"] == json!(false));
                    if !parser_ok {
                        // the parser itself refuses or dies at this depth: beyond what "the parser accepts"
                        break;
                    }
                    parser_limit = d;
                    ladder_calls.fetch_add(1, Ordering::Relaxed);
                    let f = run_step(fi, d, "format");
                    let ok = matches!(&f, Ok(v) if v["format"].as_array().is_some_and(|a| a.iter().all(|x| x["ok"] == json!(true))));
                    if ok {
                        max_ok = d;
                        continue;
                    }
                    let detail = match &f {
                        Ok(v) => format!("formatter did not succeed: {v}"),
                        Err(e) => format!("formatter process {e}"),
                    };
                    let clause = if hard { "nesting-within-required-depth" } else { "nesting-beyond-required-depth" };
                    ladder_fail.lock().unwrap().push(Failure {
                        property: "C05".into(),
                        signature: format!("C05|{clause}|ladder={name}"),
                        clause: clause.into(),
                        input: format!("<ladder {name} depth {d}: {}…>", ladder(fi, 3)),
                        cfg: None,
                        detail: format!("ladder {name} at depth {d} (parser alone succeeds in the same 8 MiB stack): {detail}"),
                        derivation: format!("ladder={name} depth={d}"),
                        extra: json!({"ladder": fi, "depth": d}),
                        count: 1,
                    });
                    break;
                }
                ladder_rows_m.lock().unwrap().push(json!({"ladder": name, "formatter_ok_up_to": max_ok, "parser_ok_up_to": parser_limit}));
            });
        }
    });
    ladder_rows.extend(ladder_rows_m.into_inner().unwrap());
    let mut failures = failures.into_inner().unwrap();
    failures.extend(ladder_fail.into_inner().unwrap());

    let t = totals.into_inner().unwrap();
    let exhaustive = fams.iter().enumerate().all(|(i, f)| done_per_family[i].load(Ordering::Relaxed) >= f.size);
    let mut samples = t.3;
    if samples.is_empty() {
        samples.push(json!({"family": fams[0].name, "input": nth(&SIGMA, 1000)}));
    }
    let mut cov = Coverage {
        states: t.0,
        transitions: t.1 + ladder_calls.load(Ordering::Relaxed) as u64,
        evaluations: t.0,
        distinct_nontrivial: t.2,
        rule: "every string of each family (all strings over a 38-character structural alphabet up to the length bound; all token strings over 28 core tokens (and one shorter over all 42 tokens); every single-character damage of every canonical skeleton instance; Unicode blanks/newlines in structural contexts) x widths {0,1,2,79,80,usize::MAX/2} x tab_spaces {0,1,2,64}, in worker processes with an 8 MiB stack: no panic/abort/hang, Ok <=> no syntax errors, format_with_width = input when erroneous and = F(x) otherwise; nesting ladders of 16 recursive families, each step in its own process: success required up to depth 2048, deeper steps up to the parser's own limit reported. Non-trivial = cases that are well-formed Typst (the others exercise the refusal path)".into(),
        samples,
        exhaustive,
        completed_levels: fams.iter().enumerate().map(|(i, f)| format!("{}: {} of {}", f.name, done_per_family[i].load(Ordering::Relaxed), f.size)).collect(),
        incomplete_level: if exhaustive { None } else { Some("wall cap".into()) },
        extra: Default::default(),
    };
    cov.extra.insert("ladders".into(), json!(ladder_rows));
    cov.extra.insert("format_calls".into(), json!(t.1));
    cov.extra.insert("wellformed_cases".into(), json!(t.2));
    let out = Outcome {
        property: "C05".into(),
        tier: tier.into(),
        seed,
        coverage: cov,
        assumptions: vec![
            "worker processes run every case in a thread with an 8 MiB stack; the parent bisects a chunk whose worker dies or exceeds its time limit (5 s + 20 ms per case) down to the single culprit".into(),
            "tab_spaces and max_width are covered at their ends and at representative interior points, not at every value".into(),
        ],
        failures,
        wall_s: start.elapsed().as_secs_f64(),
    };
    report::finish(out, &|kf| {
        // known ladder findings: re-run the recorded ladder step
        let name = kf.example.get("ladder").and_then(|v| v.as_str()).unwrap_or("");
        let (Some(l), Some(d)) = (LADDERS.iter().position(|x| x.0 == name).map(|i| i as u64), kf.example.get("depth").and_then(|v| v.as_u64())) else { return false };
        let p = run_step(l as usize, d as usize, "parse");
        if !matches!(&p, Ok(v) if v["erroneous"] == json!(false)) {
            return false;
        }
        let f = run_step(l as usize, d as usize, "format");
        !matches!(&f, Ok(v) if v["format"].as_array().is_some_and(|a| a.iter().all(|x| x["ok"] == json!(true))))
    })
}

/// `./check replay <file>` for C05: re-run the single recorded case (in this process; an abort kills it visibly).
pub fn replay(v: &Value, path: &str) -> i32 {
    if let (Some(l), Some(d)) = (v["extra"]["ladder"].as_u64(), v["extra"]["depth"].as_u64()) {
        println!("replay C05 ladder {} depth {d}", LADDERS[l as usize].0);
        let code = ladder_worker(&[l.to_string(), d.to_string(), "format".into()]);
        if code != 0 {
            println!("VIOLATION property=C05 replay={path}");
            return 1;
        }
        return 0;
    }
    let input = v["input"].as_str().unwrap_or("");
    let mut fails = vec![];
    let mut calls = 0;
    check_case(&Real, input, &mut fails, &mut calls);
    println!("replay C05: input={}", esc(input));
    if fails.is_empty() {
        println!("PASS: totality holds for this input under {calls} calls");
        0
    } else {
        for (c, d, cfg) in &fails {
            println!("FAIL clause={c} cfg={} :: {d}", cfg.show());
        }
        println!("VIOLATION property=C05 replay={path}");
        1
    }
}
