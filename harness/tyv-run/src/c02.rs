//! C02: formatting never changes what the document compiles to. Oracle = the Typst compiler
//! (tyv-world: minimal in-memory World, embedded fonts, virtual module m.typ, render at 2 px/pt).

use std::sync::atomic::{AtomicU64, Ordering};

use typst_syntax::SyntaxNode;
use tyv_model::subject::{Cfg, Subject};
use tyv_model::sweep::{Checker, Fail, Oracle};
use tyv_model::syntax::esc;
use tyv_world::Compiled;

/// The prelude is two short lines that no width can break; everything else lives in the virtual
/// module m.typ, which binds every atom the source model uses so that most programs evaluate.
pub const PRELUDE: &str = "#import \"m.typ\": *\n#show: setup\n\n";
pub const MODULE: &str = "#let setup(body) = {\n  set page(width: 180pt, height: auto, margin: 4pt)\n  set text(size: 6pt)\n  body\n}\n#let a = 1\n#let b = 2\n#let c = 3\n#let d = (4, 5)\n#let e = (k: 6, f: 7)\n#let h = \"s\"\n#let f(..x) = [F#x.pos().len()]\n#let g(..x) = [G#x.pos().len()#x.named().len()]\n#let k = 8\n#let x = 9\n#let m = (sub: 1)\n#let B = 16\n#let v = 0\n";

pub static COMPILES: AtomicU64 = AtomicU64::new(0);
pub static COMPILED_OK: AtomicU64 = AtomicU64::new(0);

pub fn compile(text: &str) -> Compiled {
    let n = COMPILES.fetch_add(1, Ordering::Relaxed);
    if n % 4000 == 3999 {
        tyv_world::evict();
    }
    tyv_world::compile(text, MODULE)
}

pub struct C02;

fn describe(c: &Compiled) -> String {
    match c {
        Compiled::Ok { pages, info } => format!("{} page(s) {:?} info={}", pages.len(), pages, info),
        Compiled::Err(e) => format!("fails with {:?}", e),
    }
}

impl Oracle for C02 {
    fn property(&self) -> &'static str {
        "C02"
    }
    fn for_input<'a>(&'a self, input: &'a str, _src: &'a SyntaxNode, _subject: &'a dyn Subject) -> Checker<'a> {
        let mut cin: Option<Compiled> = None;
        Box::new(move |_cfg: &Cfg, out: &str| {
            let a = cin.get_or_insert_with(|| {
                let c = compile(input);
                if matches!(c, Compiled::Ok { .. }) {
                    COMPILED_OK.fetch_add(1, Ordering::Relaxed);
                }
                c
            });
            let b = compile(out);
            if *a == b {
                return vec![];
            }
            let clause = match (&*a, &b) {
                (Compiled::Ok { .. }, Compiled::Err(_)) => "compiles-before-fails-after",
                (Compiled::Err(_), Compiled::Ok { .. }) => "fails-before-compiles-after",
                (Compiled::Err(_), Compiled::Err(_)) => "diagnostics-differ",
                (Compiled::Ok { pages: p, info: i }, Compiled::Ok { pages: q, info: j }) => {
                    if p.len() != q.len() {
                        "page-count-differs"
                    } else if i != j {
                        "document-info-differs"
                    } else {
                        "rendering-differs"
                    }
                }
            };
            vec![Fail::new(clause, format!("output {} :: input {} ; output {}", esc(&out[out.len().min(PRELUDE.len().saturating_sub(2))..]), describe(a), describe(&b)))]
        })
    }
    fn rule(&self) -> String {
        "every well-formed program of the program sub-model (the source model instantiated after a fixed prelude that binds every atom; virtual module m.typ) x every configuration; the input and each distinct output are compiled and rendered with the real Typst compiler (in-memory world, embedded fonts, 2 px/pt): both succeed -> same page count, same document info, pixel-identical pages; both fail -> same error messages; one fails -> violation. Non-trivial = distinct input with a deviation or whose output differs".into()
    }
}
