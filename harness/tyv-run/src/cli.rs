//! E2: explicit-state exploration of the real `typstyle` CLI binary with stateright (C14, C15) and
//! the batch comparison of all front-ends with the library (C16).
//!
//! State = abstract file tree (slot -> bytes); action = one CLI invocation; `next_state`
//! materialises the tree in a private sandbox directory, runs the REAL binary, observes exit code,
//! stdout, bytes and mtimes, compares with the reference model (boring Rust on top of the library)
//! and returns the observed tree.

use std::collections::{BTreeMap, HashSet};
use std::hash::Hash;
use std::path::{Path, PathBuf};
use std::process::{Command, Stdio};
use std::sync::atomic::{AtomicU64, Ordering};
use std::sync::Mutex;
use std::time::{Duration, Instant};

use filetime::FileTime;
use serde_json::{json, Value};
use stateright::{Checker, Model, Property};
use typstyle_core::{Config, Typstyle};
use tyv_model::report::{self, Coverage, Failure, Outcome};
use tyv_model::syntax::esc;

const CLI_BIN_DEFAULT: &str = "/verif/target/cli/release/typstyle";

/// The typstyle binary under test (built by ./check from /repo's working tree).
pub fn cli_bin() -> String {
    std::env::var("VERIF_CLI_BIN").unwrap_or_else(|_| CLI_BIN_DEFAULT.to_string())
}

fn repo_root() -> String {
    std::env::var("VERIF_REPO").unwrap_or_else(|_| "/repo".to_string())
}
const SANDBOX_DISK: &str = "/verif/target/sandbox";
const SANDBOX_SHM: &str = "/dev/shm/tyv-sandbox";

/// Scratch space for materialised trees: tmpfs when available (no disk I/O wait), else /verif/target.
fn sandbox_root() -> &'static str {
    static ROOT: std::sync::OnceLock<&'static str> = std::sync::OnceLock::new();
    ROOT.get_or_init(|| {
        if std::fs::create_dir_all(SANDBOX_SHM).is_ok() {
            SANDBOX_SHM
        } else {
            let _ = std::fs::create_dir_all(SANDBOX_DISK);
            SANDBOX_DISK
        }
    })
}
const T0: i64 = 1_000_000_000;

// --------------------------------------------------------------------------------------- tree

pub const SLOTS: [&str; 9] = ["a.typ", "b.typ", "sub/c.typ", "sub/deep/d.typ", ".h.typ", ".hid/e.typ", "sub/.hid/f.typ", "n.txt", "dir.typ/g.typ"];
/// Slots whose file is made immutable (chattr +i) after it has been written: readable, but every
/// attempt to write, truncate, replace or rename it fails - the write fault of the model (the
/// sandbox runs as root, so permission bits would not stop a write).
pub const RO_SLOTS: [&str; 2] = ["ro_a.typ", "sub/ro_c.typ"];
const LINK: &str = "l.typ"; // symlink slot
/// targets a symlink may point to: an eligible file, a file in a hidden directory, a wrong extension
const LINK_TARGETS: [&str; 3] = ["a.typ", ".hid/e.typ", "n.txt"];

fn locked(slot: &str) -> bool {
    slot.rsplit('/').next().is_some_and(|n| n.starts_with("ro_"))
}

const FS_IOC_GETFLAGS: libc::c_ulong = 0x8008_6601;
const FS_IOC_SETFLAGS: libc::c_ulong = 0x4008_6602;
const FS_IMMUTABLE_FL: libc::c_int = 0x10;

/// Set or clear the immutable attribute of a file. Returns false if the file system refuses.
fn set_immutable(path: &Path, on: bool) -> bool {
    use std::os::unix::io::AsRawFd;
    let Ok(f) = std::fs::File::open(path) else { return false };
    let mut flags: libc::c_int = 0;
    // SAFETY: plain ioctl on an open descriptor with a pointer to a live c_int
    unsafe {
        if libc::ioctl(f.as_raw_fd(), FS_IOC_GETFLAGS as _, &mut flags) != 0 {
            return false;
        }
        let want = if on { flags | FS_IMMUTABLE_FL } else { flags & !FS_IMMUTABLE_FL };
        if want == flags {
            return true;
        }
        libc::ioctl(f.as_raw_fd(), FS_IOC_SETFLAGS as _, &want) == 0
    }
}

/// Clear the immutable attribute of every write-fault file below `dir` (before the directory is removed).
fn unlock_all(dir: &Path) {
    if let Ok(rd) = std::fs::read_dir(dir) {
        for e in rd.flatten() {
            let p = e.path();
            match e.file_type() {
                Ok(ft) if ft.is_dir() => unlock_all(&p),
                Ok(ft) if ft.is_file() && locked(&e.file_name().to_string_lossy()) => {
                    set_immutable(&p, false);
                }
                _ => {}
            }
        }
    }
}

/// Does the sandbox file system support the immutable attribute (so that write faults can be injected)?
pub fn write_faults_supported() -> bool {
    static OK: std::sync::OnceLock<bool> = std::sync::OnceLock::new();
    *OK.get_or_init(|| {
        let p = Path::new(sandbox_root()).join(format!("probe-{}", std::process::id()));
        if std::fs::write(&p, b"x").is_err() {
            return false;
        }
        let ok = set_immutable(&p, true) && std::fs::write(&p, b"y").is_err();
        set_immutable(&p, false);
        let _ = std::fs::remove_file(&p);
        ok
    })
}

#[derive(Clone, Debug, PartialEq, Eq, Hash, PartialOrd, Ord)]
pub enum Entry {
    File(Vec<u8>),
    /// symlink to another slot of the tree (possibly dangling)
    Link(String),
}

pub type Tree = BTreeMap<String, Entry>;

const U0: &[u8] = b"#let x  =  1\n";
const W: &[u8] = b"#f(aaaaaaaaaa, bbbbbbbbbb)\n";
const TB: &[u8] = b"#{\n  a\n  b\n}\n";
const IM: &[u8] = b"#import \"m.typ\": b, a\n";
const ER: &[u8] = b"#let x = (\n";
const BAD: &[u8] = b"#let x = \xff\n";
/// syntax error AND things a formatter would change (a blank at a line end, bad spacing): still "unchanged"
const ER2: &[u8] = b"#let a  =  1 \n#let x = (\n";
const NONL: &[u8] = b"text #f( 1 )";

#[derive(Clone, Copy, Debug, PartialEq, Eq, Hash, PartialOrd, Ord)]
pub enum Style {
    Default,
    C0,
    T4,
    Reorder,
}

impl Style {
    fn args(self) -> Vec<&'static str> {
        match self {
            Style::Default => vec![],
            Style::C0 => vec!["-c", "0"],
            Style::T4 => vec!["-t", "4"],
            Style::Reorder => vec!["--reorder-import-items"],
        }
    }
    fn config(self) -> Config {
        let mut c = Config::default();
        match self {
            Style::Default => {}
            Style::C0 => c.max_width = 0,
            Style::T4 => c.tab_spaces = 4,
            Style::Reorder => c.reorder_import_items = true,
        }
        c
    }
}

#[derive(Clone, Debug, PartialEq, Eq, Hash)]
pub enum Mode {
    /// `--check FILES`
    CheckFiles(Vec<String>),
    /// `-i FILES`
    Inplace(Vec<String>),
    /// stdin (bytes), with or without --check
    Stdin(Vec<u8>, bool),
    /// `format-all [--check] [DIR]`
    FormatAll(Option<String>, bool),
}

#[derive(Clone, Debug, PartialEq, Eq, Hash)]
pub struct Invocation {
    pub mode: Mode,
    pub style: Style,
    /// "", "-q", "-v"
    pub verbosity: &'static str,
    /// put `--check` before the subcommand instead of after it (it is a global flag)
    pub check_first: bool,
    /// also give `-i` on the top level, before the `format-all` subcommand (clap checks flag
    /// conflicts per command level, so this combination is accepted)
    pub inplace_first: bool,
    /// create the files of the tree in descending instead of ascending name order before the run
    /// (the order in which a directory lists its entries follows the creation order on tmpfs)
    pub reverse_creation: bool,
}

impl Invocation {
    pub fn argv(&self, root: &Path) -> Vec<String> {
        let mut v: Vec<String> = vec![];
        let style: Vec<String> = self.style.args().iter().map(|s| s.to_string()).collect();
        match &self.mode {
            Mode::CheckFiles(fs) => {
                v.push("--check".into());
                v.extend(style);
                v.extend(fs.iter().cloned());
            }
            Mode::Inplace(fs) => {
                v.push("-i".into());
                v.extend(style);
                v.extend(fs.iter().cloned());
            }
            Mode::Stdin(_, check) => {
                if *check {
                    v.push("--check".into());
                }
                v.extend(style);
            }
            Mode::FormatAll(dir, check) => {
                if self.inplace_first {
                    v.push("-i".into());
                }
                if *check && self.check_first {
                    v.push("--check".into());
                }
                v.push("format-all".into());
                if *check && !self.check_first {
                    v.push("--check".into());
                }
                v.extend(style);
                if let Some(d) = dir {
                    if d == "<abs>" {
                        v.push(root.display().to_string());
                    } else if let Some(rest) = d.strip_prefix("<abs>/") {
                        v.push(root.join(rest).display().to_string());
                    } else {
                        v.push(d.clone());
                    }
                }
            }
        }
        if !self.verbosity.is_empty() {
            v.push(self.verbosity.into());
        }
        v
    }
    pub fn is_check(&self) -> bool {
        matches!(&self.mode, Mode::CheckFiles(_) | Mode::Stdin(_, true) | Mode::FormatAll(_, true))
    }
    pub fn show(&self) -> String {
        format!("typstyle {}{}", self.argv(Path::new("<root>")).join(" "), if self.reverse_creation { " [files created in descending order]" } else { "" })
    }
}

// --------------------------------------------------------------------------------------- reference model

fn fmt(bytes: &[u8], style: Style) -> Option<Result<Vec<u8>, ()>> {
    // None: unreadable (not UTF-8); Some(Err): syntax errors; Some(Ok(formatted))
    let text = std::str::from_utf8(bytes).ok()?;
    Some(Typstyle::new(style.config()).format_content(text).map(|s| s.into_bytes()).map_err(|_| ()))
}

/// Resolve a path named on the command line to the slot it reads/writes.
fn resolve<'a>(tree: &'a Tree, path: &str) -> Option<(String, &'a Vec<u8>)> {
    match tree.get(path) {
        Some(Entry::File(b)) => Some((path.to_string(), b)),
        Some(Entry::Link(target)) => match tree.get(target) {
            Some(Entry::File(b)) => Some((target.clone(), b)),
            _ => None,
        },
        None => None,
    }
}

pub struct Expected {
    pub exit: i32,
    pub tree: Tree,
    /// texts that must not occur in stdout (check mode: formatted text of inputs that differ)
    pub forbidden_stdout: Vec<Vec<u8>>,
    pub eligible: Vec<String>,
}

fn hidden(name: &str) -> bool {
    name.starts_with('.')
}

/// Slots that `format-all DIR` may touch: regular *.typ files below DIR (whatever DIR itself is
/// called), not hidden, not below a hidden sub-directory. DIR is relative to the project root.
fn eligible_for_format_all(tree: &Tree, dir: &str) -> Vec<String> {
    let dir = dir.trim_start_matches("./").trim_end_matches('/');
    let dir = if dir == "." { "" } else { dir };
    let mut v = vec![];
    for (slot, e) in tree {
        if !matches!(e, Entry::File(_)) {
            continue; // a symlink is not a regular file
        }
        let rest = if dir.is_empty() {
            slot.as_str()
        } else if let Some(r) = slot.strip_prefix(&format!("{dir}/")) {
            r
        } else {
            continue;
        };
        if rest.split('/').any(hidden) {
            continue;
        }
        if !rest.ends_with(".typ") {
            continue;
        }
        v.push(slot.clone());
    }
    v
}

pub fn expected(tree: &Tree, inv: &Invocation) -> Expected {
    let mut t = tree.clone();
    let mut exit = 0;
    let mut io_error = false;
    let mut changed = false;
    let mut forbidden = vec![];
    let mut eligible = vec![];
    let check = inv.is_check();
    match &inv.mode {
        Mode::CheckFiles(files) | Mode::Inplace(files) => {
            for f in files {
                eligible.push(f.clone());
                let Some((slot, bytes)) = resolve(&t, f).map(|(s, b)| (s, b.clone())) else {
                    io_error = true; // missing path, directory given as a file, dangling link
                    continue;
                };
                match fmt(&bytes, inv.style) {
                    None => io_error = true,
                    Some(Err(())) => {}
                    Some(Ok(out)) => {
                        if out != bytes {
                            changed = true;
                            if check {
                                forbidden.push(out);
                            } else if locked(&slot) {
                                io_error = true; // the write fails; the file keeps its bytes
                            } else {
                                t.insert(slot, Entry::File(out));
                            }
                        }
                    }
                }
            }
        }
        Mode::Stdin(bytes, _) => match fmt(bytes, inv.style) {
            None => io_error = true,
            Some(Err(())) => {}
            Some(Ok(out)) => {
                if out != *bytes {
                    changed = true;
                    if check {
                        forbidden.push(out);
                    }
                }
            }
        },
        Mode::FormatAll(dir, _) => {
            let d = dir.clone().unwrap_or_default();
            let d = d.strip_prefix("<abs>").map(|r| r.trim_start_matches('/').to_string()).unwrap_or(d);
            eligible = eligible_for_format_all(&t, &d);
            {
                let rel = d.trim_start_matches("./").trim_end_matches('/');
                if !rel.is_empty() && rel != "." && !t.keys().any(|k| k.starts_with(&format!("{rel}/"))) {
                    io_error = true; // the directory does not exist: the walk fails
                }
            }
            for slot in eligible.clone() {
                let Some(Entry::File(bytes)) = t.get(&slot).cloned() else { continue };
                match fmt(&bytes, inv.style) {
                    None => io_error = true,
                    Some(Err(())) => {}
                    Some(Ok(out)) => {
                        if out != bytes {
                            changed = true;
                            if check {
                                forbidden.push(out);
                            } else if locked(&slot) {
                                io_error = true; // the write fails; the file keeps its bytes
                            } else {
                                t.insert(slot, Entry::File(out));
                            }
                        }
                    }
                }
            }
        }
    }
    if io_error || (check && changed) {
        exit = 1;
    }
    Expected { exit, tree: t, forbidden_stdout: forbidden, eligible }
}

// --------------------------------------------------------------------------------------- real execution

thread_local! {
    static SANDBOX_DIR: std::cell::RefCell<Option<PathBuf>> = const { std::cell::RefCell::new(None) };
}
static SANDBOX_SEQ: AtomicU64 = AtomicU64::new(0);

fn sandbox_dir() -> PathBuf {
    SANDBOX_DIR.with(|d| {
        let mut d = d.borrow_mut();
        if d.is_none() {
            let p = Path::new(sandbox_root()).join(format!("{}-{}", std::process::id(), SANDBOX_SEQ.fetch_add(1, Ordering::Relaxed)));
            *d = Some(p);
        }
        d.clone().unwrap()
    })
}

fn materialise(root: &Path, tree: &Tree, reverse: bool) {
    unlock_all(root);
    let _ = std::fs::remove_dir_all(root);
    std::fs::create_dir_all(root).unwrap();
    let mut entries: Vec<(&String, &Entry)> = tree.iter().collect();
    if reverse {
        entries.reverse();
    }
    for (slot, e) in entries {
        let p = root.join(slot);
        if let Some(parent) = p.parent() {
            std::fs::create_dir_all(parent).unwrap();
        }
        match e {
            Entry::File(b) => {
                std::fs::write(&p, b).unwrap();
                filetime::set_file_mtime(&p, FileTime::from_unix_time(T0, 0)).unwrap();
                if locked(slot) {
                    assert!(set_immutable(&p, true), "MACHINERY: cannot make {} immutable", p.display());
                }
            }
            Entry::Link(target) => {
                std::os::unix::fs::symlink(target, &p).unwrap();
            }
        }
    }
}

pub struct Observed {
    pub exit: Option<i32>,
    pub stdout: Vec<u8>,
    pub stderr: Vec<u8>,
    pub tree: Tree,
    /// slots whose mtime changed
    pub touched: Vec<String>,
    pub extra_files: Vec<String>,
}

fn walk_files(root: &Path, dir: &Path, out: &mut Vec<String>) {
    if let Ok(rd) = std::fs::read_dir(dir) {
        for e in rd.flatten() {
            let p = e.path();
            let ft = e.file_type().unwrap();
            if ft.is_dir() {
                walk_files(root, &p, out);
            } else {
                out.push(p.strip_prefix(root).unwrap().display().to_string());
            }
        }
    }
}

pub fn execute(tree: &Tree, inv: &Invocation) -> Observed {
    let root = sandbox_dir().join("proj");
    materialise(&root, tree, inv.reverse_creation);
    let mut cmd = Command::new(cli_bin());
    cmd.args(inv.argv(&root)).current_dir(&root).env("NO_COLOR", "1").stdout(Stdio::piped()).stderr(Stdio::piped());
    let stdin_bytes = if let Mode::Stdin(b, _) = &inv.mode { Some(b.clone()) } else { None };
    cmd.stdin(if stdin_bytes.is_some() { Stdio::piped() } else { Stdio::null() });
    let mut child = cmd.spawn().expect("cannot start the typstyle binary");
    if let Some(b) = stdin_bytes {
        use std::io::Write;
        let mut si = child.stdin.take().unwrap();
        let _ = si.write_all(&b);
    }
    let out = child.wait_with_output().unwrap();
    let mut t = Tree::new();
    let mut touched = vec![];
    let mut files = vec![];
    walk_files(&root, &root, &mut files);
    let mut extra = vec![];
    for f in files {
        let p = root.join(&f);
        let meta = std::fs::symlink_metadata(&p).unwrap();
        if meta.file_type().is_symlink() {
            let target = std::fs::read_link(&p).map(|t| t.display().to_string()).unwrap_or_default();
            t.insert(f.clone(), Entry::Link(target));
            continue;
        }
        let bytes = std::fs::read(&p).unwrap_or_default();
        if !tree.contains_key(&f) {
            extra.push(f.clone());
        }
        let mt = FileTime::from_last_modification_time(&meta);
        if mt.unix_seconds() != T0 {
            touched.push(f.clone());
        }
        t.insert(f, Entry::File(bytes));
    }
    Observed { exit: out.status.code(), stdout: out.stdout, stderr: out.stderr, tree: t, touched, extra_files: extra }
}

fn contains(hay: &[u8], needle: &[u8]) -> bool {
    // a formatted text of nothing but blanks (the empty document formats to one line feed) cannot
    // be told from the line ends of ordinary messages: only texts with visible content count
    needle.iter().any(|b| !b.is_ascii_whitespace()) && hay.windows(needle.len()).any(|w| w == needle)
}

/// Compare one real transition with the reference model. Returns (clause, detail) list.
pub fn compare(tree: &Tree, inv: &Invocation, exp: &Expected, obs: &Observed) -> Vec<(String, String)> {
    let mut v = vec![];
    let check = inv.is_check();
    // files: bytes
    for (slot, e) in &exp.tree {
        match (e, obs.tree.get(slot)) {
            (Entry::File(want), Some(Entry::File(got))) => {
                if want != got {
                    let before = tree.get(slot);
                    let was = match before {
                        Some(Entry::File(b)) => b.clone(),
                        _ => vec![],
                    };
                    let clause = if check {
                        "check-mode-modified-a-file"
                    } else if *got == was {
                        "eligible-file-not-written"
                    } else if *want == was {
                        "file-written-that-must-not-change"
                    } else {
                        "written-bytes-differ-from-library"
                    };
                    v.push((clause.to_string(), format!("{slot}: expected {} but found {}", esc(&String::from_utf8_lossy(want)), esc(&String::from_utf8_lossy(got)))));
                }
            }
            (Entry::Link(a), Some(Entry::Link(b))) if a == b => {}
            (_, got) => v.push((
                if check { "check-mode-modified-a-file" } else { "file-written-that-must-not-change" }.to_string(),
                format!("{slot}: entry changed its type or vanished ({got:?})"),
            )),
        }
    }
    // mtimes: a file whose bytes must not change must not be touched either
    for slot in &obs.touched {
        let unchanged_expected = tree.get(slot) == exp.tree.get(slot);
        if unchanged_expected && tree.contains_key(slot) {
            v.push((
                if check { "check-mode-touched-a-file" } else { "unchanged-file-rewritten" }.to_string(),
                format!("{slot}: modification time changed although its content must stay"),
            ));
        }
    }
    for f in &obs.extra_files {
        v.push(("unexpected-file-created".into(), format!("{f} appeared")));
    }
    // exit status
    if obs.exit != Some(exp.exit) {
        v.push((
            if check { "check-exit-status" } else { "exit-status" }.to_string(),
            format!("exit status {:?}, expected {} (stderr: {})", obs.exit, exp.exit, esc(&String::from_utf8_lossy(&obs.stderr)).chars().take(200).collect::<String>()),
        ));
    }
    // check mode prints no formatted text
    if check {
        for f in &exp.forbidden_stdout {
            if contains(&obs.stdout, f) {
                v.push(("check-mode-printed-formatted-text".into(), format!("stdout contains the formatted text {}", esc(&String::from_utf8_lossy(f)))));
            }
        }
    }
    v
}

// --------------------------------------------------------------------------------------- stateright model

/// State shared by the partitioned checkers. stateright's parallel BFS hands work over in blocks of
/// 1500 states, far more than this whole state space, so it would run on one thread. Instead the
/// initial states are dealt to `partitions` single-threaded stateright BFS checkers; `claimed`
/// makes sure every unique state is expanded by exactly one of them.
pub struct Shared {
    pub property: &'static str,
    pub thorough: bool,
    pub violations: Mutex<Vec<Failure>>,
    pub transitions: AtomicU64,
    pub samples: Mutex<Vec<Value>>,
    pub seed: u64,
    pub deadline: Instant,
    pub capped: std::sync::atomic::AtomicBool,
    pub distinct_outcomes: Mutex<HashSet<(Option<i32>, usize)>>,
    pub claimed: Mutex<HashSet<Tree>>,
    /// every tree seen as a source or as a result of a transition
    pub seen: Mutex<HashSet<Tree>>,
}

pub struct CliModel {
    pub shared: std::sync::Arc<Shared>,
    pub partition: usize,
    pub partitions: usize,
}

impl std::ops::Deref for CliModel {
    type Target = Shared;
    fn deref(&self) -> &Shared {
        &self.shared
    }
}

fn present_paths(tree: &Tree) -> Vec<String> {
    tree.keys().cloned().collect()
}

fn ordered_lists(cands: &[String], max_len: usize) -> Vec<Vec<String>> {
    let mut res = vec![];
    fn rec(cands: &[String], max_len: usize, cur: &mut Vec<String>, res: &mut Vec<Vec<String>>) {
        if !cur.is_empty() {
            res.push(cur.clone());
        }
        if cur.len() == max_len {
            return;
        }
        for c in cands {
            if cur.contains(c) {
                continue;
            }
            cur.push(c.clone());
            rec(cands, max_len, cur, res);
            cur.pop();
        }
    }
    rec(cands, max_len, &mut vec![], &mut res);
    res
}

impl Shared {
    fn styles_for(&self, tree: &Tree) -> Vec<Style> {
        if self.thorough {
            return vec![Style::Default, Style::C0, Style::T4, Style::Reorder];
        }
        // quick: default plus the one other option that changes the formatted form of some content of this tree
        let mut v = vec![Style::Default];
        let has = |b: &[u8]| tree.values().any(|e| matches!(e, Entry::File(x) if x == b || fmt(b, Style::Default).and_then(|r| r.ok()).is_some_and(|f| *x == f)));
        if has(TB) {
            v.push(Style::T4);
        } else if has(IM) {
            v.push(Style::Reorder);
        } else {
            v.push(Style::C0);
        }
        v
    }

    fn file_candidates(&self, tree: &Tree) -> Vec<String> {
        let mut c = present_paths(tree);
        c.push("missing.typ".into());
        // a directory given as a file
        if tree.keys().any(|k| k.starts_with("dir.typ/")) {
            c.push("dir.typ".into());
        } else if tree.keys().any(|k| k.starts_with("sub/")) {
            c.push("sub".into());
        }
        c
    }
}

impl Model for CliModel {
    type State = Tree;
    type Action = Invocation;

    fn init_states(&self) -> Vec<Tree> {
        // all trees with <= 2 (thorough: 3) present entries over all kinds, plus trees with one more
        // entry over the two plain kinds; C14 also starts from already formatted contents
        let f0 = fmt(U0, Style::Default).unwrap().unwrap();
        let mut kinds: Vec<Vec<u8>> = vec![U0.to_vec(), W.to_vec(), ER.to_vec(), BAD.to_vec()];
        if self.thorough {
            kinds.extend([TB.to_vec(), IM.to_vec(), NONL.to_vec()]);
        }
        // already formatted content: reached anyway as a successor state; starting from it as well
        // lets the quick tier check "a second run is a no-op" within a smaller depth bound
        kinds.push(f0.clone());
        let plain: Vec<Vec<u8>> = vec![U0.to_vec(), W.to_vec()];
        let mut entries: Vec<(String, Entry)> = vec![];
        for s in SLOTS {
            for k in &kinds {
                entries.push((s.to_string(), Entry::File(k.clone())));
            }
        }
        for t in LINK_TARGETS {
            entries.push((LINK.to_string(), Entry::Link(t.to_string())));
        }
        // write faults: a readable file that cannot be written (needs formatting / already formatted)
        if write_faults_supported() {
            for s in RO_SLOTS {
                entries.push((s.to_string(), Entry::File(U0.to_vec())));
            }
            entries.push((RO_SLOTS[0].to_string(), Entry::File(f0.clone())));
        }
        let full = if self.thorough { 3 } else { 2 };
        let mut res: Vec<Tree> = vec![];
        fn rec(entries: &[(String, Entry)], start: usize, left: usize, cur: &mut Tree, res: &mut Vec<Tree>) {
            res.push(cur.clone());
            if left == 0 {
                return;
            }
            for i in start..entries.len() {
                if cur.contains_key(&entries[i].0) {
                    continue;
                }
                cur.insert(entries[i].0.clone(), entries[i].1.clone());
                rec(entries, i + 1, left - 1, cur, res);
                cur.remove(&entries[i].0);
            }
        }
        rec(&entries, 0, full, &mut Tree::new(), &mut res);
        // one more entry over the plain kinds
        let mut plain_entries: Vec<(String, Entry)> = vec![];
        for s in SLOTS {
            for k in &plain {
                plain_entries.push((s.to_string(), Entry::File(k.clone())));
            }
        }
        let mut more: Vec<Tree> = vec![];
        rec(&plain_entries, 0, full + 1, &mut Tree::new(), &mut more);
        res.extend(more.into_iter().filter(|t| t.len() == full + 1));
        // single files that differ from their formatted text only at line ends (final line feed
        // missing, CRLF line ends) or in one aspect of style, alone and next to one plain file
        let mut nolf = f0.clone();
        nolf.pop();
        let crlf: Vec<u8> = String::from_utf8_lossy(&fmt(TB, Style::Default).unwrap().unwrap()).replace('\n', "\r\n").into_bytes();
        let special: Vec<Vec<u8>> = vec![nolf, crlf, NONL.to_vec(), TB.to_vec(), IM.to_vec(), Vec::new(), b"\n".to_vec(), b" \n".to_vec(), ER2.to_vec()];
        for s in SLOTS {
            for k in &special {
                let mut t = Tree::new();
                t.insert(s.to_string(), Entry::File(k.clone()));
                res.push(t.clone());
                for s2 in SLOTS.iter().take(2) {
                    if *s2 != s {
                        let mut t2 = t.clone();
                        t2.insert(s2.to_string(), Entry::File(U0.to_vec()));
                        res.push(t2);
                    }
                }
            }
        }
        res.sort();
        res.dedup();
        res.into_iter().enumerate().filter(|(i, _)| i % self.partitions == self.partition).map(|x| x.1).collect()
    }

    fn actions(&self, tree: &Tree, actions: &mut Vec<Invocation>) {
        // every unique state is expanded once, by whichever checker reaches it first
        if !self.claimed.lock().unwrap().insert(tree.clone()) {
            return;
        }
        let styles = self.styles_for(tree);
        let cands = self.file_candidates(tree);
        let lists = ordered_lists(&cands, 3);
        let want_check = self.property == "C14";
        let inv = |mode: Mode, style: Style, verbosity: &'static str, check_first: bool| Invocation { mode, style, verbosity, check_first, inplace_first: false, reverse_creation: false };
        for (si, &style) in styles.iter().enumerate() {
            for l in &lists {
                // the second style only with lists of <= 2 entries in the quick tier
                if !self.thorough && si > 0 && l.len() > 2 {
                    continue;
                }
                if want_check {
                    actions.push(inv(Mode::CheckFiles(l.clone()), style, "", false));
                } else {
                    actions.push(inv(Mode::Inplace(l.clone()), style, "", false));
                }
            }
            let dirs: Vec<Option<String>> = vec![
                None,
                Some(".".into()),
                Some("sub".into()),
                Some(".hid".into()),
                Some("./sub/".into()),
                Some("<abs>".into()),
                Some("dir.typ".into()),
                Some("<abs>/sub".into()),
                Some("sub/.hid".into()),
                Some("nodir".into()),
            ];
            for d in dirs {
                // the directories of the menu are explored where they exist; one directory that does
                // not exist ("nodir") stands for the failed walk: an I/O error, exit status 1, nothing written
                if let Some(dd) = &d {
                    let rel = dd.strip_prefix("<abs>").map(|r| r.trim_start_matches('/')).unwrap_or(dd).trim_start_matches("./").trim_end_matches('/');
                    if !rel.is_empty() && rel != "." && rel != "nodir" && !tree.keys().any(|k| k.starts_with(&format!("{rel}/"))) {
                        continue;
                    }
                }
                actions.push(inv(Mode::FormatAll(d.clone(), want_check), style, "", false));
                if want_check && si == 0 {
                    actions.push(inv(Mode::FormatAll(d.clone(), true), style, "", true));
                }
                if si == 0 {
                    actions.push(Invocation { inplace_first: true, ..inv(Mode::FormatAll(d.clone(), want_check), style, "", false) });
                    // a hidden file next to visible entries: both listing orders of the directory
                    if tree.keys().any(|k| k.rsplit('/').next().is_some_and(hidden)) && tree.len() > 1 {
                        actions.push(Invocation { reverse_creation: true, ..inv(Mode::FormatAll(d.clone(), want_check), style, "", false) });
                    }
                }
            }
            if want_check {
                for b in [U0, W, ER, BAD, ER2] {
                    actions.push(inv(Mode::Stdin(b.to_vec(), true), style, "", false));
                }
            }
        }
        // verbosity flags on the basic shapes
        for vb in ["-q", "-v"] {
            actions.push(inv(Mode::FormatAll(None, want_check), Style::Default, vb, false));
            if let Some(first) = cands.first() {
                let l = vec![first.clone()];
                actions.push(inv(if want_check { Mode::CheckFiles(l) } else { Mode::Inplace(l) }, Style::Default, vb, false));
            }
        }
    }

    fn next_state(&self, tree: &Tree, inv: Invocation) -> Option<Tree> {
        if Instant::now() > self.deadline {
            self.capped.store(true, Ordering::Relaxed);
            return None;
        }
        let exp = expected(tree, &inv);
        let obs = execute(tree, &inv);
        let n = self.transitions.fetch_add(1, Ordering::Relaxed);
        self.distinct_outcomes.lock().unwrap().insert((obs.exit, obs.touched.len()));
        let diffs = compare(tree, &inv, &exp, &obs);
        if (n.wrapping_add(self.seed)) % 9973 == 0 {
            let mut s = self.samples.lock().unwrap();
            if s.len() < 6 {
                s.push(json!({"tree": show_tree(tree), "invocation": inv.show(), "exit": obs.exit, "files_written": obs.touched,
                    "stdout": String::from_utf8_lossy(&obs.stdout).chars().take(160).collect::<String>(), "expected_exit": exp.exit}));
            }
        }
        for (clause, detail) in diffs {
            let mine = match self.property {
                "C14" => inv.is_check(),
                _ => !inv.is_check(),
            };
            if !mine {
                continue;
            }
            let kinds: Vec<String> = exp.eligible.iter().map(|p| kind_of(tree, p, inv.style)).collect();
            self.violations.lock().unwrap().push(Failure {
                property: self.property.into(),
                signature: format!("{}|{}|{}|targets={}", self.property, clause, shape_of(&inv), kinds.join(",")),
                clause,
                input: format!("tree {} ; {}", show_tree(tree), inv.show()),
                cfg: None,
                detail,
                derivation: format!("tree of {} entries", tree.len()),
                extra: json!({"tree": tree_json(tree), "argv": inv.argv(Path::new("<root>")), "reverse_creation": inv.reverse_creation, "stdin": if let Mode::Stdin(b, _) = &inv.mode { Some(String::from_utf8_lossy(b).to_string()) } else { None }}),
                count: 1,
            });
        }
        // the observed tree is the next state (entries created by the tool would show up here too)
        if obs.tree != *tree {
            self.seen.lock().unwrap().insert(obs.tree.clone());
        }
        Some(obs.tree)
    }

    fn properties(&self) -> Vec<Property<Self>> {
        // violations are collected in a side table: stateright stops at the first discovery per
        // property, and the known-finding rule needs all minimal violations
        vec![Property::<Self>::always("explore everything", |_, _| true)]
    }
}

fn kind_of(tree: &Tree, path: &str, style: Style) -> String {
    let hiddenp = path.split('/').any(hidden);
    let k = match resolve(tree, path) {
        None => {
            if path == "missing.typ" {
                "missing"
            } else if tree.contains_key(path) {
                "dangling-link"
            } else {
                "dir-as-file"
            }
        }
        Some((_, b)) => match fmt(b, style) {
            None => "unreadable",
            Some(Err(())) => "erroneous",
            Some(Ok(o)) => {
                if o == *b {
                    "formatted"
                } else {
                    "unformatted"
                }
            }
        },
    };
    let link = if matches!(tree.get(path), Some(Entry::Link(_))) { "link:" } else { "" };
    format!("{link}{k}{}{}", if hiddenp { "(hidden)" } else { "" }, if locked(path) { "(unwritable)" } else { "" })
}

fn shape_of(inv: &Invocation) -> String {
    match &inv.mode {
        Mode::CheckFiles(f) => format!("--check x{}", f.len()),
        Mode::Inplace(f) => format!("-i x{}", f.len()),
        Mode::Stdin(_, c) => format!("stdin{}", if *c { " --check" } else { "" }),
        Mode::FormatAll(d, c) => format!("format-all{} {}", if *c { " --check" } else { "" }, d.clone().unwrap_or_else(|| "<none>".into())),
    }
}

fn show_tree(t: &Tree) -> String {
    let parts: Vec<String> = t
        .iter()
        .map(|(k, e)| match e {
            Entry::File(b) => format!("{k}={}", esc(&String::from_utf8_lossy(b))),
            Entry::Link(t) => format!("{k}->{t}"),
        })
        .collect();
    format!("{{{}}}", parts.join(", "))
}

fn tree_json(t: &Tree) -> Value {
    let m: serde_json::Map<String, Value> = t
        .iter()
        .map(|(k, e)| {
            (
                k.clone(),
                match e {
                    Entry::File(b) => json!({"bytes": b}),
                    Entry::Link(t) => json!({"link": t}),
                },
            )
        })
        .collect();
    Value::Object(m)
}

pub fn run_explore(property: &'static str, tier: &str, seed: u64) -> i32 {
    let start = Instant::now();
    let thorough = tier == "thorough";
    if !Path::new(&cli_bin()).exists() {
        eprintln!("MACHINERY: {} missing (the check script builds it)", cli_bin());
        return 2;
    }
    let cap = Duration::from_secs(std::env::var("VERIF_WALL_CAP_S").ok().and_then(|s| s.parse().ok()).unwrap_or(if thorough { 12 * 60 } else { 300 }));
    let threads = std::thread::available_parallelism().map(|n| n.get()).unwrap_or(8);
    let shared = std::sync::Arc::new(Shared {
        property,
        thorough,
        violations: Mutex::new(vec![]),
        transitions: AtomicU64::new(0),
        samples: Mutex::new(vec![]),
        seed,
        deadline: start + cap,
        capped: std::sync::atomic::AtomicBool::new(false),
        distinct_outcomes: Mutex::new(HashSet::new()),
        claimed: Mutex::new(HashSet::new()),
        seen: Mutex::new(HashSet::new()),
    });
    let depth = if property == "C14" { 2 } else if thorough { 4 } else { 2 };
    let mut init = 0;
    let mut max_depth = 0;
    let results: Vec<(usize, usize)> = std::thread::scope(|sc| {
        let hs: Vec<_> = (0..threads)
            .map(|p| {
                let shared = shared.clone();
                sc.spawn(move || {
                    let model = CliModel { shared, partition: p, partitions: threads };
                    let n_init = model.init_states().len();
                    let checker = model.checker().threads(1).target_max_depth(depth).spawn_bfs().join();
                    (n_init, checker.max_depth())
                })
            })
            .collect();
        hs.into_iter().map(|h| h.join().unwrap()).collect()
    });
    for (i, d) in results {
        init += i;
        max_depth = max_depth.max(d);
    }
    let model = &*shared;
    let expanded = model.claimed.lock().unwrap().len() as u64;
    let unique = {
        let mut all = model.seen.lock().unwrap().clone();
        all.extend(model.claimed.lock().unwrap().iter().cloned());
        all.len() as u64
    };
    let transitions = model.transitions.load(Ordering::Relaxed);
    let capped = model.capped.load(Ordering::Relaxed);
    // clean the sandboxes of this process
    if let Ok(rd) = std::fs::read_dir(sandbox_root()) {
        for e in rd.flatten() {
            if e.file_name().to_string_lossy().starts_with(&format!("{}-", std::process::id())) {
                unlock_all(&e.path());
                let _ = std::fs::remove_dir_all(e.path());
            }
        }
    }
    let mut samples = model.samples.lock().unwrap().clone();
    if samples.is_empty() {
        samples.push(json!({"tree": "{a.typ=#let x  =  1}", "invocation": "typstyle --check a.typ"}));
    }
    let failures = model.violations.lock().unwrap().clone();
    let mut cov = Coverage {
        states: unique,
        transitions,
        evaluations: transitions,
        distinct_nontrivial: unique.saturating_sub(1),
        rule: format!(
            "stateright BFS over abstract file trees (9 slots incl. hidden files/directories, a directory with the .typ extension, a wrong extension, plus a symlink and two files that can be read but not written; contents: unformatted, formatted-but-option-sensitive, erroneous, invalid UTF-8{}); initial states: all trees with <= {} entries over all kinds plus all trees with one more entry over the two plain kinds; actions: {} with every ordered list of <= 3 entries of the tree (incl. a missing path and a directory given as a file), format-all with 9 directory spellings, {}style options, -q/-v; every transition materialises the tree, runs the real binary and is compared with the reference model (exit status, bytes, mtimes, stdout); depth bound {}. Non-trivial = every unique non-empty tree",
            if thorough { ", tab-sensitive, import-order-sensitive, no trailing newline" } else { "" },
            if thorough { 3 } else { 2 },
            if property == "C14" { "--check FILES" } else { "-i FILES" },
            if property == "C14" { "stdin --check, " } else { "" },
            depth
        ),
        samples,
        exhaustive: !capped,
        completed_levels: vec![format!("depth {max_depth} reached from {init} initial states")],
        incomplete_level: if capped { Some("wall cap: remaining transitions skipped".into()) } else { None },
        extra: Default::default(),
    };
    cov.extra.insert("initial_states".into(), json!(init));
    cov.extra.insert("states_expanded".into(), json!(expanded));
    cov.extra.insert("max_depth".into(), json!(max_depth));
    cov.extra.insert("distinct_outcomes_exit_x_files_touched".into(), json!(model.distinct_outcomes.lock().unwrap().len()));
    let out = Outcome {
        property: property.into(),
        tier: tier.into(),
        seed,
        coverage: cov,
        assumptions: vec![
            "the sandbox runs as root, so permission bits cannot make a file unreadable: invalid UTF-8, a missing path, a directory given as a file and a dangling symlink stand in for 'unreadable'".into(),
            if write_faults_supported() {
                "write faults: the files ro_a.typ and sub/ro_c.typ carry the immutable attribute (chattr +i on the sandbox file system), so reading succeeds and every write fails".into()
            } else {
                "write faults NOT explored: the sandbox file system does not support the immutable attribute".into()
            },
            "format-all on a directory that does not exist (nodir) is an I/O error: exit status 1, nothing written".into(),
            "the reference model formats with typstyle_core linked into the harness (same working tree as the CLI binary)".into(),
        ],
        failures,
        wall_s: start.elapsed().as_secs_f64(),
    };
    report::finish(out, &|kf| {
        // re-run the recorded scenario
        let Some(tree) = kf.example.get("tree").and_then(tree_from_json) else { return false };
        let Some(inv) = kf.example.get("invocation").and_then(inv_from_json) else { return false };
        let exp = expected(&tree, &inv);
        let obs = execute(&tree, &inv);
        let want = kf.example.get("clause").and_then(|v| v.as_str());
        compare(&tree, &inv, &exp, &obs).iter().any(|(c, _)| want.is_none_or(|w| w == c))
    })
}

fn tree_from_json(v: &Value) -> Option<Tree> {
    let mut t = Tree::new();
    for (k, e) in v.as_object()? {
        if let Some(l) = e.get("link").and_then(|l| l.as_str()) {
            t.insert(k.clone(), Entry::Link(l.to_string()));
        } else if let Some(s) = e.get("text").and_then(|x| x.as_str()) {
            t.insert(k.clone(), Entry::File(s.as_bytes().to_vec()));
        } else {
            let b: Vec<u8> = e.get("bytes")?.as_array()?.iter().map(|x| x.as_u64().unwrap_or(0) as u8).collect();
            t.insert(k.clone(), Entry::File(b));
        }
    }
    Some(t)
}

fn inv_from_json(v: &Value) -> Option<Invocation> {
    let style = match v.get("style").and_then(|s| s.as_str()).unwrap_or("default") {
        "c0" => Style::C0,
        "t4" => Style::T4,
        "reorder" => Style::Reorder,
        _ => Style::Default,
    };
    let files = || -> Vec<String> { v.get("files").and_then(|f| f.as_array()).map(|a| a.iter().filter_map(|x| x.as_str().map(|s| s.to_string())).collect()).unwrap_or_default() };
    let mode = match v.get("mode")?.as_str()? {
        "check" => Mode::CheckFiles(files()),
        "inplace" => Mode::Inplace(files()),
        "format-all" => Mode::FormatAll(v.get("dir").and_then(|d| d.as_str()).map(|s| s.to_string()), v.get("check").and_then(|c| c.as_bool()).unwrap_or(false)),
        _ => return None,
    };
    Some(Invocation { mode, style, verbosity: "", check_first: false, inplace_first: false, reverse_creation: v.get("reverse_creation").and_then(|c| c.as_bool()).unwrap_or(false) })
}

// --------------------------------------------------------------------------------------- C16

fn corpus() -> Vec<(String, Vec<u8>)> {
    let mut v: Vec<(String, Vec<u8>)> = vec![];
    let mut add = |n: &str, s: &str| v.push((n.to_string(), s.as_bytes().to_vec()));
    add("w_chain", "#let v = aaaa.bbbb(cccc).dddd(eeee).ffff(gggg).hhhh(iiii, jjjj, kkkk)\n");
    add("w_args", "#f(aaaaaaaaaaaa, bbbbbbbbbbbbb, cccccccccccc, dddddddddddddd, eeeeeeeeeeeeeee, ffffffffffffffff)\n");
    add("w_binary", "#let v = aaaaaaaaaaaa + bbbbbbbbbbbbb * cccccccccccc - dddddddddddddd + eeeeeeeeeeeeeee and ffffffffffffffff\n");
    add("w_array", "#let v = (1, 2, 3, 4, 5, 6, 7, 8, 9, 10, 11, 12, 13, 14, 15, 16, 17, 18, 19, 20, 21, 22, 23, 24, 25, 26)\n");
    add("w_dict", "#let v = (alpha: 1, beta: (gamma: 2, delta: (epsilon: 3, zeta: 4)), eta: \"theta iota kappa lambda mu\")\n");
    add("w_math", "$ sum_(i=1)^n f(x_i, y_i) + mat(1, 2; 3, 4) + cases(a &\"if\" b, c &\"else\") $\n");
    add("w_closure", "#let f = (aaaa, bbbb: 1, ..cccc) => { let d = aaaa + bbbb; for e in cccc.pos() { d += e }; d }\n");
    add("t_blocks", "#{\n  if a {\n    for b in c {\n      while d { e }\n    }\n  } else {\n    [f\n      - g\n        - h]\n  }\n}\n");
    add("t_lists", "- a\n  - b\n    - c\n      + d\n        / e: f\n\n= Heading\n\n#f[\n  - x\n    - y\n]\n");
    add("t_table", "#table(columns: 3, [a], [b], [c], table.header([d], [e], [f]), [g], [h], [i], [j])\n");
    add("t_math_ml", "$\n  a &= b \\\n  &= c + f(\n    x,\n    y\n  )\n$\n");
    add("r_import", "#import \"m.typ\": zeta, alpha, gamma as g, beta.delta\n#import \"n.typ\": b, a\n");
    add("r_import_dup", "#import \"m.typ\": b as a, a\n#import \"m.typ\": c, /* k */ a\n");
    add("r_import_paren", "#import \"m.typ\": (\n  c,\n  b,\n  a,\n)\n");
    add("e_unclosed", "#let x = (\n");
    add("e_markup", "*unclosed strong\n\n#f(\n");
    add("e_no_nl", "#let x = ");
    add("n_no_trailing_nl", "#let x  =  1");
    add("n_trailing_blank", "text   \n\n\n");
    add("n_crlf", "#let x = 1\r\n#let y  = 2\r\n");
    add("empty", "");
    // control characters are valid in strings, comments, raw text and markup and must reach stdout unchanged
    add("ctrl_string", "#let red = \"\u{1b}[31m\"\n#let bell = \"a\u{7}b\u{8}c\u{7f}d\"\n");
    add("ctrl_comment", "// esc \u{1b}[0m bel \u{7}\n#f( 1 )\n/* vt \u{b} ff \u{c} */\n");
    add("ctrl_raw_markup", "`a\u{1b}[1mb` text \u{1b}[31mred\u{1b}[0m \u{7f}\n");
    add("ctrl_erroneous", "#let x = (\"\u{1b}[31m\"\n");
    // tiny sources whose layout still changes between column 0 and 8
    add("tiny_call", "#f(a)\n");
    add("tiny_paren", "#(a)\n#(a,)\n");
    add("tiny_field", "#a.b.c()\n");
    add("tiny_math", "$a b$\n$ a $\n");
    add("tiny_block", "#{a}\n#[ab]\n");
    add("tiny_binary", "#(a+b)\n");
    add("ws_only", "   \n\n");
    add("comments", "#f(a, // c1\n  b, /* c2 */ c)\n// end");
    add("off", "// @typstyle off\n#f( 1,2 )\n#g( 3,4 )\n");
    add("raw", "```py\ndef f():\n    pass\n```\n\n#raw(\"a  b\")\n");
    add("strings", "#let s = \"a  b\\n c\"\n#let t = \"multi\nline\"\n");
    add("show_set", "#show heading: it => [#it.body #h(1fr) #counter(heading).display()]\n#set text(size: 11pt, font: \"New Computer Modern\", lang: \"en\")\n");
    add("unicode", "= Überschrift — 数学\n\n#let café = \"naïve\" // ☕\n$α + β$\n");
    add("shebang", "#!/usr/bin/env typst\n#let x = 1\n");
    add("long_text", "Lorem ipsum dolor sit amet, consectetur adipiscing elit, sed do eiusmod tempor incididunt ut labore et dolore magna aliqua. #f(a,b) Ut enim ad minim veniam.\n");
    // generated 100 kB file
    let mut big = String::new();
    for i in 0..1500 {
        big.push_str(&format!("#let v{i} = f(a{i}, (b: {i}, c: \"s{i}\"), x => x + {i})\n- item {i} with $x_{i}$\n\n"));
    }
    add("big_100k", &big);
    // last lines around the 1 024-byte line buffer of stdout and texts beyond the 64 KiB pipe buffer,
    // with and without a final line feed, well-formed and erroneous (an erroneous text is echoed as it is)
    for n in [1023usize, 1024, 1025, 5000, 70_000] {
        let long = "x".repeat(n);
        add(&format!("longlast_ok_{n}"), &format!("#let a = 1\n{long}"));
        add(&format!("longlast_ok_nl_{n}"), &format!("#let a = 1\n{long}\n"));
        add(&format!("longlast_err_{n}"), &format!("#let a = (\n{long}"));
        add(&format!("longlast_err_nl_{n}"), &format!("#let a = (\n{long}\n"));
    }
    add("oneline_err_70k", &format!("#f({}", "a, ".repeat(23_000)));
    // fixtures of the repository (unit tests; a representative, deterministic slice)
    let mut fx: Vec<PathBuf> = vec![];
    fn walk(d: &Path, out: &mut Vec<PathBuf>) {
        if let Ok(rd) = std::fs::read_dir(d) {
            for e in rd.flatten() {
                let p = e.path();
                if p.is_dir() {
                    walk(&p, out);
                } else if p.extension().is_some_and(|x| x == "typ") {
                    out.push(p);
                }
            }
        }
    }
    walk(&Path::new(&repo_root()).join("tests/fixtures/unit"), &mut fx);
    fx.sort();
    for (i, p) in fx.iter().enumerate() {
        if i % 6 == 0 {
            if let Ok(b) = std::fs::read(p) {
                if b.len() < 20_000 {
                    v.push((format!("fx_{}", p.file_stem().unwrap().to_string_lossy()), b));
                }
            }
        }
    }
    v
}

fn lib_format(bytes: &[u8], col: usize, tab: usize, reorder: bool) -> Vec<u8> {
    // what every front-end must print / write for this input: the library's text, or the input itself when erroneous
    let Ok(text) = std::str::from_utf8(bytes) else { return bytes.to_vec() };
    let cfg = Config { max_width: col, tab_spaces: tab, reorder_import_items: reorder, ..Default::default() };
    match Typstyle::new(cfg).format_content(text) {
        Ok(s) => s.into_bytes(),
        Err(_) => bytes.to_vec(),
    }
}

pub fn run_c16(tier: &str, seed: u64) -> i32 {
    let start = Instant::now();
    let thorough = tier == "thorough";
    if !Path::new(&cli_bin()).exists() {
        eprintln!("MACHINERY: {} missing (the check script builds it)", cli_bin());
        return 2;
    }
    let cap = Duration::from_secs(std::env::var("VERIF_WALL_CAP_S").ok().and_then(|s| s.parse().ok()).unwrap_or(if thorough { 12 * 60 } else { 300 }));
    let corpus = corpus();
    let mut configs: Vec<(usize, usize, bool)> = vec![];
    if thorough {
        for col in 0..=400 {
            for tab in 0..=16 {
                for r in [false, true] {
                    configs.push((col, tab, r));
                }
            }
        }
    } else {
        for r in [false, true] {
            for col in 0..=400 {
                configs.push((col, 2, r));
            }
            for tab in 0..=16 {
                configs.push((80, tab, r));
                configs.push((20, tab, r));
            }
        }
        // the corner where the two options are of the same size (column below, at and above the tab
        // width): every pair in 0..=17 x 0..=16
        for col in 0..=17 {
            for tab in 0..=16 {
                configs.push((col, tab, false));
            }
        }
    }
    configs.sort();
    configs.dedup();
    let next = std::sync::atomic::AtomicUsize::new(0);
    let failures: Mutex<Vec<Failure>> = Mutex::new(vec![]);
    let runs = AtomicU64::new(0);
    let comparisons = AtomicU64::new(0);
    let done_cfgs = AtomicU64::new(0);
    let samples: Mutex<Vec<Value>> = Mutex::new(vec![]);
    let threads = std::thread::available_parallelism().map(|n| n.get()).unwrap_or(8);
    let fail = |clause: &str, sig: String, detail: String, extra: Value| {
        failures.lock().unwrap().push(Failure { property: "C16".into(), clause: clause.into(), signature: format!("C16|{clause}|{sig}"), input: String::new(), cfg: None, detail, derivation: sig.clone(), extra, count: 1 });
    };
    std::thread::scope(|sc| {
        for _ in 0..threads {
            sc.spawn(|| {
                let dir = sandbox_dir();
                loop {
                    if start.elapsed() > cap {
                        break;
                    }
                    let ci = next.fetch_add(1, Ordering::Relaxed);
                    if ci >= configs.len() {
                        break;
                    }
                    let (col, tab, reorder) = configs[ci];
                    let mut style: Vec<String> = vec!["--column".into(), col.to_string(), "--tab-width".into(), tab.to_string()];
                    if reorder {
                        style.push("--reorder-import-items".into());
                    }
                    // alternate the short and the long option spelling
                    if ci % 2 == 1 {
                        style[0] = "-c".into();
                        style[2] = "-t".into();
                    }
                    let expect: Vec<Vec<u8>> = corpus.iter().map(|(_, b)| lib_format(b, col, tab, reorder)).collect();
                    let cfgs = format!("column={col} tab-width={tab} reorder={reorder}");
                    // materialise the corpus
                    let root = dir.join("c16");
                    let _ = std::fs::remove_dir_all(&root);
                    std::fs::create_dir_all(root.join("all/nested")).unwrap();
                    let names: Vec<String> = corpus.iter().enumerate().map(|(i, (n, _))| format!("{i:03}_{n}.typ")).collect();
                    for ((_, b), n) in corpus.iter().zip(&names) {
                        std::fs::write(root.join(n), b).unwrap();
                    }
                    // 1. stdout, the whole corpus as one multi-file invocation: concatenation in argument order
                    let out = Command::new(cli_bin()).args(&style).args(&names).current_dir(&root).env("NO_COLOR", "1").stdin(Stdio::null()).output().unwrap();
                    runs.fetch_add(1, Ordering::Relaxed);
                    let want: Vec<u8> = expect.concat();
                    comparisons.fetch_add(corpus.len() as u64, Ordering::Relaxed);
                    if out.stdout != want {
                        // find the first file whose slice differs
                        let mut off = 0;
                        let mut which = "<length>".to_string();
                        for (i, e) in expect.iter().enumerate() {
                            if out.stdout.len() < off + e.len() || out.stdout[off..off + e.len()] != e[..] {
                                which = corpus[i].0.clone();
                                break;
                            }
                            off += e.len();
                        }
                        fail("stdout-multi-file", format!("file={which}"), format!("{cfgs}: stdout of the multi-file invocation differs from the concatenated library results, first at {which}"), json!({"config": cfgs}));
                    }
                    // 2. stdin, a rotating slice of the corpus (thorough: everything)
                    for (i, (n, b)) in corpus.iter().enumerate() {
                        if !thorough && (i + ci) % 6 != 0 {
                            continue;
                        }
                        if std::str::from_utf8(b).is_err() {
                            continue;
                        }
                        let mut ch = Command::new(cli_bin()).args(&style).current_dir(&root).env("NO_COLOR", "1").stdin(Stdio::piped()).stdout(Stdio::piped()).stderr(Stdio::null()).spawn().unwrap();
                        {
                            use std::io::Write;
                            let mut si = ch.stdin.take().unwrap();
                            let _ = si.write_all(b);
                        }
                        let o = ch.wait_with_output().unwrap();
                        runs.fetch_add(1, Ordering::Relaxed);
                        comparisons.fetch_add(1, Ordering::Relaxed);
                        if o.stdout != expect[i] {
                            fail("stdin", format!("file={n}"), format!("{cfgs}: stdin front-end printed {} but the library returns {}", esc(&String::from_utf8_lossy(&o.stdout)).chars().take(200).collect::<String>(), esc(&String::from_utf8_lossy(&expect[i])).chars().take(200).collect::<String>()), json!({"config": cfgs, "file": n}));
                        }
                    }
                    // 3. in place on copies
                    for ((_, b), n) in corpus.iter().zip(&names) {
                        std::fs::write(root.join("all").join(n), b).unwrap();
                        std::fs::write(root.join("all/nested").join(n), b).unwrap();
                    }
                    let inplace_names: Vec<String> = names.iter().map(|n| format!("all/{n}")).collect();
                    let _ = Command::new(cli_bin()).arg("-i").args(&style).args(&inplace_names).current_dir(&root).env("NO_COLOR", "1").stdin(Stdio::null()).output().unwrap();
                    runs.fetch_add(1, Ordering::Relaxed);
                    for (i, n) in names.iter().enumerate() {
                        comparisons.fetch_add(1, Ordering::Relaxed);
                        let got = std::fs::read(root.join("all").join(n)).unwrap_or_default();
                        if got != expect[i] {
                            fail("inplace", format!("file={}", corpus[i].0), format!("{cfgs}: -i wrote/kept {} but the library returns {}", esc(&String::from_utf8_lossy(&got)).chars().take(200).collect::<String>(), esc(&String::from_utf8_lossy(&expect[i])).chars().take(200).collect::<String>()), json!({"config": cfgs, "file": n}));
                        }
                    }
                    // 4. format-all on the nested copies
                    let _ = Command::new(cli_bin()).arg("format-all").args(&style).arg("all/nested").current_dir(&root).env("NO_COLOR", "1").stdin(Stdio::null()).output().unwrap();
                    runs.fetch_add(1, Ordering::Relaxed);
                    for (i, n) in names.iter().enumerate() {
                        comparisons.fetch_add(1, Ordering::Relaxed);
                        let got = std::fs::read(root.join("all/nested").join(n)).unwrap_or_default();
                        if got != expect[i] {
                            fail("format-all", format!("file={}", corpus[i].0), format!("{cfgs}: format-all wrote/kept {} but the library returns {}", esc(&String::from_utf8_lossy(&got)).chars().take(200).collect::<String>(), esc(&String::from_utf8_lossy(&expect[i])).chars().take(200).collect::<String>()), json!({"config": cfgs, "file": n}));
                        }
                    }
                    // 5. the width-only convenience function (exported to wasm): width = column, defaults otherwise
                    if tab == 2 && !reorder {
                        for (i, (n, b)) in corpus.iter().enumerate() {
                            if let Ok(t) = std::str::from_utf8(b) {
                                comparisons.fetch_add(1, Ordering::Relaxed);
                                let got = typstyle_core::format_with_width(t, col);
                                if got.as_bytes() != &expect[i][..] {
                                    fail("format_with_width", format!("file={n}"), format!("width={col}: format_with_width returns {} but Typstyle::new(cfg).format_content gives {}", esc(&got).chars().take(200).collect::<String>(), esc(&String::from_utf8_lossy(&expect[i])).chars().take(200).collect::<String>()), json!({"width": col, "file": n}));
                                }
                                // the function's own result fed back at two other widths (what an editor
                                // does when the user changes the width): still the library's answer
                                if b.len() < 4000 {
                                    for w2 in [col / 2, col + 37] {
                                        comparisons.fetch_add(1, Ordering::Relaxed);
                                        let again = typstyle_core::format_with_width(&got, w2);
                                        let want = lib_format(got.as_bytes(), w2, 2, false);
                                        if again.as_bytes() != &want[..] {
                                            fail("format_with_width-after-own-output", format!("file={n}"), format!("format_with_width(format_with_width(x, {col}), {w2}) returns {} but the library gives {}", esc(&again).chars().take(200).collect::<String>(), esc(&String::from_utf8_lossy(&want)).chars().take(200).collect::<String>()), json!({"width": col, "width2": w2, "file": n}));
                                        }
                                    }
                                }
                            }
                        }
                    }
                    if (ci as u64 + seed) % 211 == 0 {
                        let mut s = samples.lock().unwrap();
                        if s.len() < 5 {
                            s.push(json!({"config": cfgs, "argv_style": style, "files_in_one_invocation": names.len(), "stdout_bytes": out.stdout.len(), "front_ends": ["stdout multi-file", "stdin", "-i", "format-all", "format_with_width"]}));
                        }
                    }
                    done_cfgs.fetch_add(1, Ordering::Relaxed);
                }
                let _ = std::fs::remove_dir_all(&dir);
            });
        }
    });
    let done = done_cfgs.load(Ordering::Relaxed);
    let mut samples = samples.into_inner().unwrap();
    if samples.is_empty() {
        samples.push(json!({"config": "column=80 tab-width=2", "files": corpus.len()}));
    }
    let mut failures = failures.into_inner().unwrap();
    // one signature per (clause, file): the smallest configuration is the representative
    failures.sort_by(|a, b| a.signature.cmp(&b.signature));
    let mut cov = Coverage {
        states: done * corpus.len() as u64,
        transitions: runs.load(Ordering::Relaxed),
        evaluations: comparisons.load(Ordering::Relaxed),
        distinct_nontrivial: done * corpus.len() as u64,
        rule: format!(
            "corpus of {} files (option-sensitive model sources, erroneous texts, with/without trailing newline, empty, CRLF, 100 kB generated file, every 6th unit fixture) x {} configurations ({}) x front-ends: CLI stdout with the whole corpus in one invocation (concatenation order), CLI stdin, CLI -i, format-all, format_with_width in-process; byte equality with Typstyle::new(Config{{max_width, tab_spaces, reorder_import_items}}).format_content(text), input unchanged when erroneous. A state is a (file, configuration) pair; non-trivial = all of them",
            corpus.len(),
            configs.len(),
            if thorough { "full product column 0..=400 x tab-width 0..=16 x reorder" } else { "every column 0..=400 with tab-width 2, every tab-width 0..=16 with column 80 and 20, both reorder values" }
        ),
        samples,
        exhaustive: done as usize == configs.len(),
        completed_levels: vec![format!("{done} of {} configurations", configs.len())],
        incomplete_level: if done as usize == configs.len() { None } else { Some("wall cap".into()) },
        extra: Default::default(),
    };
    cov.extra.insert("cli_runs".into(), json!(runs.load(Ordering::Relaxed)));
    cov.extra.insert("corpus_files".into(), json!(corpus.len()));
    let out = Outcome {
        property: "C16".into(),
        tier: tier.into(),
        seed,
        coverage: cov,
        assumptions: vec!["the library reference is typstyle_core linked into the harness, built from the same working tree as the CLI binary".into()],
        failures,
        wall_s: start.elapsed().as_secs_f64(),
    };
    report::finish(out, &|_| false)
}

/// `./check replay <file>` for C14 / C15: re-run the recorded (tree, invocation) against the real binary.
pub fn replay(v: &Value, path: &str) -> i32 {
    let property = v["property"].as_str().unwrap_or("C15").to_string();
    let Some(tree) = tree_from_json(&v["extra"]["tree"]) else {
        eprintln!("MACHINERY: replay file has no tree");
        return 2;
    };
    let argv: Vec<String> = v["extra"]["argv"].as_array().map(|a| a.iter().filter_map(|x| x.as_str().map(|s| s.to_string())).collect()).unwrap_or_default();
    // rebuild the invocation from its argv
    let check = argv.iter().any(|a| a == "--check");
    let style = if argv.windows(2).any(|w| w[0] == "-c" && w[1] == "0") {
        Style::C0
    } else if argv.windows(2).any(|w| w[0] == "-t" && w[1] == "4") {
        Style::T4
    } else if argv.iter().any(|a| a == "--reorder-import-items") {
        Style::Reorder
    } else {
        Style::Default
    };
    let positional: Vec<String> = {
        let mut out = vec![];
        let mut skip = false;
        for a in &argv {
            if skip {
                skip = false;
                continue;
            }
            if a == "-c" || a == "-t" {
                skip = true;
                continue;
            }
            if a.starts_with('-') || a == "format-all" {
                continue;
            }
            out.push(a.replace("<root>", "<abs>"));
        }
        out
    };
    let verbosity = if argv.iter().any(|a| a == "-q") { "-q" } else if argv.iter().any(|a| a == "-v") { "-v" } else { "" };
    let mode = if argv.iter().any(|a| a == "format-all") {
        Mode::FormatAll(positional.first().cloned(), check)
    } else if let Some(s) = v["extra"]["stdin"].as_str() {
        Mode::Stdin(s.as_bytes().to_vec(), check)
    } else if check {
        Mode::CheckFiles(positional)
    } else {
        Mode::Inplace(positional)
    };
    let inv = Invocation { mode, style, verbosity, check_first: argv.first().is_some_and(|a| a == "--check") && argv.iter().any(|a| a == "format-all"),
        inplace_first: argv.first().is_some_and(|a| a == "-i") && argv.iter().any(|a| a == "format-all"),
        reverse_creation: v["extra"]["reverse_creation"].as_bool().unwrap_or(false) };
    let exp = expected(&tree, &inv);
    let obs = execute(&tree, &inv);
    let diffs = compare(&tree, &inv, &exp, &obs);
    println!("replay {property}: tree {} ; {}", show_tree(&tree), inv.show());
    println!("observed exit {:?}, expected {}; files touched {:?}", obs.exit, exp.exit, obs.touched);
    if diffs.is_empty() {
        println!("PASS: the real binary agrees with the reference model");
        0
    } else {
        for (c, d) in diffs {
            println!("FAIL clause={c} :: {d}");
        }
        println!("VIOLATION property={property} replay={path}");
        1
    }
}
