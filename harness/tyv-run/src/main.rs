//! tyv: binds the engines of tyv-model to the typstyle-core of /repo's working tree.

mod c02;
mod c05;
mod c17;
mod cli;
mod c18;

use std::ops::Range;
use std::time::{Duration, Instant};

use tyv_model::families;
use tyv_model::model::{self, Model, Size};
use tyv_model::oracles;
use tyv_model::report::{self, KnownFinding, Outcome};
use tyv_model::subject::{Cfg, Refused, Subject};
use tyv_model::sweep::{self, CfgPolicy, ExtraLevel, Level, Oracle, SpineFilter, SweepSpec, Widths};
use typst_syntax::Source;
use typstyle_core::{Config, Typstyle};

pub struct Real;

fn to_config(c: &Cfg) -> Config {
    Config { max_width: c.max_width, tab_spaces: c.tab_spaces, reorder_import_items: c.reorder, blank_lines_upper_bound: c.blank }
}

fn fixed_id() -> typst_syntax::FileId {
    static ID: std::sync::OnceLock<typst_syntax::FileId> = std::sync::OnceLock::new();
    *ID.get_or_init(|| Source::detached("").id())
}

impl Subject for Real {
    fn format(&self, text: &str, cfg: &Cfg) -> Result<String, Refused> {
        let src = Source::new(fixed_id(), text.to_string());
        Typstyle::new(to_config(cfg)).format_source(&src).map_err(|_| Refused)
    }
    fn format_content(&self, text: &str, cfg: &Cfg) -> Result<String, Refused> {
        Typstyle::new(to_config(cfg)).format_content(text).map_err(|_| Refused)
    }
    fn format_with_width(&self, text: &str, width: usize) -> String {
        typstyle_core::format_with_width(text, width)
    }
    fn format_range(&self, text: &str, range: Range<usize>, cfg: &Cfg) -> Result<(Range<usize>, String), Refused> {
        let src = Source::detached(text);
        Typstyle::new(to_config(cfg)).format_source_range(&src, range).map_err(|_| Refused)
    }
    fn format_ranges(&self, text: &str, ranges: &[Range<usize>], cfg: &Cfg) -> Vec<Result<Result<(Range<usize>, String), Refused>, String>> {
        let src = Source::new(fixed_id(), text.to_string());
        let t = Typstyle::new(to_config(cfg));
        ranges
            .iter()
            .map(|r| tyv_model::subject::guarded(|| t.format_source_range(&src, r.clone()).map_err(|_| Refused)))
            .collect()
    }
}

fn main() {
    std::panic::set_hook(Box::new(|_| {}));
    let args: Vec<String> = std::env::args().collect();
    if args.len() < 2 {
        eprintln!("usage: tyv <Cxx> [quick|thorough] | tyv triage <Cxx> [tier] | tyv plan <Cxx> [tier] | tyv replay <file>");
        std::process::exit(2);
    }
    let code = match args[1].as_str() {
        "triage" => run_check(&args[2], args.get(3).map(|s| s.as_str()), Mode::Triage),
        "plan" => run_check(&args[2], args.get(3).map(|s| s.as_str()), Mode::Plan),
        "replay" => replay(&args[2]),
        "show" => {
            show(&args[2..]);
            0
        }
        "grammar-coverage" => grammar_coverage(&args[2..]),
        "C05" => c05::run(&report::tier_from_env(args.get(2).map(|s| s.as_str())), report::seed_from_env()),
        "c05-worker" => c05::worker(&args[2..]),
        "c05-ladder" => c05::ladder_worker(&args[2..]),
        "C14" => cli::run_explore("C14", &report::tier_from_env(args.get(2).map(|s| s.as_str())), report::seed_from_env()),
        "C15" => cli::run_explore("C15", &report::tier_from_env(args.get(2).map(|s| s.as_str())), report::seed_from_env()),
        "C16" => cli::run_c16(&report::tier_from_env(args.get(2).map(|s| s.as_str())), report::seed_from_env()),
        "C17" => c17::run(&report::tier_from_env(args.get(2).map(|s| s.as_str())), report::seed_from_env()),
        "c17-one" => c17::worker_one(args[2].parse().unwrap()),
        "c17-hist" => c17::worker_hist(args[2].parse().unwrap(), &args[3].split(',').map(|x| x.parse().unwrap()).collect::<Vec<usize>>()),
        "c17-sched" => c17::worker_sched(&args[2..]),
        "C18" => c18::run(&report::tier_from_env(args.get(2).map(|s| s.as_str())), report::seed_from_env()),
        id => run_check(id, args.get(2).map(|s| s.as_str()), Mode::Check),
    };
    std::process::exit(code);
}

#[derive(PartialEq, Clone, Copy)]
enum Mode {
    Check,
    Triage,
    Plan,
}

fn show(args: &[String]) {
    // tyv show <ctx> <k>  : print instantiated skeletons (debug aid)
    let m = Model::with_ugly();
    let k: usize = args.get(1).and_then(|s| s.parse().ok()).unwrap_or(1);
    let sks = sweep::skeletons_f(&m, &[args[0].as_str()], &[k], &[Size::Short], SpineFilter::Clean);
    let mut bad = 0;
    for sk in &sks {
        let t = m.instantiate(sk);
        let ok = tyv_model::syntax::wellformed(&t);
        if !ok {
            bad += 1;
        }
        println!("{} {} :: {}", if ok { "ok " } else { "BAD" }, m.describe(sk), tyv_model::syntax::esc(&t));
    }
    println!("{} skeletons, {} ill-formed", sks.len(), bad);
}

const DECORATORS: [&str; 7] = ["paren", "neg", "not", "field", "call0", "paren2", "pos"];
const LEAVES: [&str; 7] = ["int", "float", "numeric", "str", "none", "auto", "bool"];
const MAIN_CTX: [&str; 10] = ["doc", "hash", "let", "codeblock", "arg", "math_i", "math_b", "mixed", "item", "content_ml"];
const MORE_CTX: [&str; 7] = ["nested_code", "nested_code3", "math_hash", "heading", "strong", "pattern", "param"];
const CORE_CTX: [&str; 5] = ["doc", "hash", "let", "codeblock", "math_i"];

fn all_ctx() -> Vec<&'static str> {
    MAIN_CTX.iter().chain(MORE_CTX.iter()).copied().collect()
}

struct Plan {
    oracle: Box<dyn Oracle>,
    model: Model,
    levels: Vec<Level>,
    extra: Vec<ExtraLevel>,
    policy: CfgPolicy,
    assumptions: Vec<String>,
}

fn lvl(name: &str, skeletons: Vec<model::Skeleton>, dev1: &[&str], dev2: &[&str]) -> Level {
    Level { name: name.into(), skeletons, dev1: model::forms(dev1), dev2: model::forms(dev2) }
}

/// The standard full-model levels (C01, C03, C04, C11 and, restricted by `admits`, C06/C09/C10).
/// `full_levels` without the quick-tier levels whose names start with one of `skip`: the targeted
/// levels stay with the property whose defects they were built for (DESIGN §8.1), so that every
/// quick tier finishes below its wall cap. The thorough tier always runs all of them.
fn full_levels_without(m: &Model, thorough: bool, forms1: &[&str], forms_k2: &[&str], forms2: &[&str], skip: &[&str]) -> Vec<Level> {
    let v = full_levels(m, thorough, forms1, forms_k2, forms2);
    if thorough {
        return v;
    }
    v.into_iter().filter(|l| !skip.iter().any(|s| l.name.starts_with(s))).collect()
}

fn full_levels(m: &Model, thorough: bool, forms1: &[&str], forms_k2: &[&str], forms2: &[&str]) -> Vec<Level> {
    let all = all_ctx();
    let mut v = vec![
        lvl("ctx*/k<=1/dev<=1", sweep::skeletons(m, &all, &[0, 1], &[Size::Short, Size::Medium]), forms1, &[]),
        // atoms of 20 chars everywhere / a 45-char last atom: line length now interacts with the
        // 0.6 * max_width chain rule and with "does the call fit"; layout-relevant forms only
        lvl(
            "ctx*/k<=1/mid+tail atoms/layout forms",
            sweep::skeletons(m, &all, &[1], &[Size::AllMid, Size::Tail]),
            if forms1.len() > 6 { &["nl", "nl_sp12", "nl2", "none", "lc", "bc"] } else { forms1 },
            &[],
        ),
        lvl("main/k2/dev0", sweep::skeletons(m, &MAIN_CTX, &[2], &[Size::Short]), &[], &[]),
        if thorough {
            lvl("hash,let,math/k2/dev1", sweep::skeletons(m, &["hash", "let", "math_i"], &[2], &[Size::Short]), forms_k2, &[])
        } else {
            lvl("let/k2/dev1", sweep::skeletons(m, &["let"], &[2], &[Size::Short]), &forms_k2[..1], &[])
        },
    ];
    // patterns and parameters two productions deep (named items holding '_', nested destructuring)
    v.push(lvl("pattern,param/k2/dev0", sweep::skeletons(m, &["pattern", "param"], &[2], &[Size::Short]), &[], &[]));
    // decorated spines: p1 . (paren | neg | not | field | call0 | paren2 | pos)^{1,2} . literal leaf
    v.push(lvl(
        "let,arg,codeblock/decorated spines/dev0",
        sweep::decorated_skeletons(m, &["let", "arg", "codeblock"], &DECORATORS, 2, &LEAVES),
        &[],
        &[],
    ));
    // a directive and an ordinary comment together, around the argument kinds that are not printed verbatim
    v.push(directive_args_level(m, thorough, true));
    // a directive in front of a closure body that spans lines: the protected body keeps its line break
    v.push(lvl(
        "arg/closure argument/directive+line break",
        sweep::skeletons(m, &["arg"], &[2], &[Size::Short]).into_iter().filter(|sk| m.prods[sk.spine[0].0].name == "clos1").collect(),
        &["off_bc", "nl"],
        &["off_bc", "nl"],
    ));
    // chains written over several, over-indented lines (two line-break deviations)
    v.push(lvl(
        "codeblock,let,arg/chains/two over-indented line breaks",
        sweep::skeletons(m, &["codeblock", "let", "arg"], &[1, 2], &[Size::Short, Size::AllMid, Size::Tail])
            .into_iter()
            .filter(|sk| {
                let last = m.prods[sk.spine[sk.spine.len() - 1].0].name;
                let first = m.prods[sk.spine[0].0].name;
                matches!(last, "field2" | "chain_call" | "chain3" | "method" | "method2")
                    && (sk.spine.len() == 1 || matches!(first, "let" | "paren" | "arr1" | "call1" | "block1_ml"))
            })
            .collect(),
        &["nl_sp12", "nl"],
        &["nl_sp12", "nl"],
    ));
    // closure bodies one production deep with a comment at every gap: the choice between braces and
    // parentheses around a statement-like body depends on comments anywhere below it
    v.push(lvl(
        "arg,let/closure bodies/k2/comments",
        sweep::skeletons(m, &["arg", "let"], &[2], &[Size::Short])
            .into_iter()
            .filter(|sk| m.prods[sk.spine[0].0].name.starts_with("clos") && sk.spine[0].1 + 1 == m.prods[sk.spine[0].0].holes)
            .collect(),
        &["lc", "bc", "nl_lc"],
        &[],
    ));
    // a 130-character first atom: the rest of the line sits in an absolute column window (beyond 80 /
    // 120 columns) whatever the configured width is, two productions deep
    v.push(lvl(
        "codeblock,let/k2 below a later hole/long first atom/dev0",
        sweep::skeletons(m, &["codeblock", "let"], &[2], &[Size::Long]).into_iter().filter(|sk| sk.spine[0].1 >= 1).collect(),
        &[],
        &[],
    ));
    if thorough {
        v.push(lvl("ctx*/k<=1/two line breaks", sweep::skeletons(m, &all, &[1], &[Size::Short, Size::AllMid]), &["nl_sp12", "nl"], &["nl_sp12", "nl"]));
        v.push(lvl("ctx*/k<=1/dev2", sweep::skeletons(m, &all, &[1], &[Size::Short]), forms2, forms2));
        v.push(lvl("ctx*/k2/dev1", sweep::skeletons(m, &all, &[2], &[Size::Short]), forms1, &[]));
        v.push(lvl("ctx*/k<=1/long", sweep::skeletons(m, &all, &[1], &[Size::AllMid, Size::Long]), forms1, &[]));
        v.push(lvl("main/k2/medium", sweep::skeletons(m, &MAIN_CTX, &[2], &[Size::Medium]), forms_k2, &[]));
        v.push(lvl(
            "core/k3-leaf/dev0",
            sweep::skeletons_f(m, &CORE_CTX, &[3], &[Size::Short], SpineFilter::LeafLast),
            &[],
            &[],
        ));
        v.push(lvl("core/k3/dev0", sweep::skeletons(m, &CORE_CTX, &[3], &[Size::Short]), &[], &[]));
    }
    cheapest_first(v)
}

/// Order the levels by estimated cost, cheapest first, so that a wall cap cuts the most expensive
/// level and not the small targeted ones.
fn cheapest_first(mut v: Vec<Level>) -> Vec<Level> {
    let cost = |l: &Level| {
        let g = 14usize; // typical number of gaps
        l.skeletons.len() * (1 + g * l.dev1.len() + g * g / 2 * l.dev2.len() * l.dev2.len())
    };
    v.sort_by_key(cost);
    v
}

fn literal_wrappers(m: &Model, ks: &[usize]) -> Vec<(String, String)> {
    // every hole of every context spine, as text with a \u{1} placeholder: instantiate the skeleton
    // with a marker atom, then cut the marker out
    let mut res = vec![];
    let marker = "a"; // the first E atom of a skeleton is always `a`
    for sk in sweep::skeletons(m, &["hash", "let", "codeblock", "arg", "mixed", "nested_code", "nested_code3", "math_hash", "content_ml"], ks, &[Size::Short]) {
        let t = m.instantiate(&sk);
        // replace the first standalone `a` token that is an identifier leaf
        let root = tyv_model::syntax::parse(&t);
        if root.erroneous() {
            continue;
        }
        let mut pos = None;
        fn find(n: &typst_syntax::LinkedNode, marker: &str, pos: &mut Option<Range<usize>>) {
            if pos.is_some() {
                return;
            }
            if n.kind() == typst_syntax::SyntaxKind::Ident && n.text() == marker {
                *pos = Some(n.range());
                return;
            }
            for c in n.children() {
                find(&c, marker, pos);
            }
        }
        find(&typst_syntax::LinkedNode::new(&root), marker, &mut pos);
        if let Some(r) = pos {
            let w = format!("{}\u{1}{}", &t[..r.start], &t[r.end..]);
            res.push((m.describe(&sk), w));
        }
    }
    res.sort();
    res.dedup_by(|a, b| a.1 == b.1);
    res
}

/// A directive (and optionally an ordinary comment) around the argument kinds that are formatted
/// although a directive precedes them (named, spread, closure arguments; dict items).
fn directive_args_level(m: &Model, thorough: bool, with_comment: bool) -> Level {
    lvl(
        if with_comment { "arg/named,spread,dict/directive+comment" } else { "arg/named,spread,dict/directive" },
        sweep::skeletons(m, if thorough { &["arg", "let"] } else { &["arg"] }, &[2], &[Size::Short])
            .into_iter()
            .filter(|sk| {
                let n = m.prods[sk.spine[0].0].name;
                matches!(n, "named" | "spread" | "clos1") || (thorough && matches!(n, "dict1" | "dict_keyed" | "dict_spread" | "let_fn"))
            })
            .collect(),
        if with_comment { &["off_bc", "bc"] } else { &["off_bc", "off_lc"] },
        if with_comment { &["off_bc", "bc"] } else { &[] },
    )
}

/// Inline markup sequences in every markup-bearing context, including block elements whose last
/// token meets the closing bracket (the markup edges the skeleton model reaches only at depth 3).
fn prose_extra(thorough: bool) -> ExtraLevel {
    let n = if thorough { 2 } else { 1 };
    ExtraLevel { name: format!("prose sequences <= {n} in markup contexts and at markup edges"), inputs: families::prose(n, false) }
}

/// "Start from non-initial states": the formatter's own outputs at narrow widths (its broken,
/// multi-line layouts, which the one-line canonical templates never spell) as inputs, explored with
/// the full configuration policy. Second generation of every canonical k <= 1 instance at widths 0
/// and 20 with indent units 2 and 4.
fn gen2_extra(m: &Model, thorough: bool) -> ExtraLevel {
    let subject = Real;
    // (the same set in both tiers: the k = 2 generation was tried in the thorough tier of C03 and
    // only re-found class K6 46 times; it is left out until the thorough tiers of C01 and C04 have
    // been run with it)
    let _ = thorough;
    let sks = sweep::skeletons(m, &all_ctx(), &[0, 1], &[Size::Short, Size::AllMid]);
    let mut inputs: Vec<(String, String)> = vec![];
    let mut seen = std::collections::HashSet::new();
    for sk in &sks {
        let t = m.instantiate(sk);
        if !tyv_model::syntax::wellformed(&t) {
            continue;
        }
        let d = m.describe(sk);
        for (w, tab) in [(0usize, 2usize), (20, 2), (0, 4)] {
            let cfg = Cfg { max_width: w, tab_spaces: tab, reorder: false, blank: 2 };
            if let Ok(Ok(o)) = tyv_model::subject::guarded(|| subject.format(&t, &cfg)) {
                if o != t && tyv_model::syntax::wellformed(&o) && seen.insert(sweep::h64(&o, 0)) {
                    inputs.push((format!("gen2:{d}@w{w}t{tab}"), o));
                }
            }
        }
    }
    ExtraLevel { name: "second generation: the formatter's outputs at widths 0 and 20 as inputs".into(), inputs }
}

/// Development aid (not a check): (parent kind, child kind) pairs and child-kind triples that occur
/// in the given Typst files but in no canonical instance of the model (contexts x spines k <= 2,
/// plus the free-standing families). Each line names a piece of grammar the sweep never builds.
fn grammar_coverage(files: &[String]) -> i32 {
    use std::collections::{BTreeMap, BTreeSet};
    fn pairs(n: &typst_syntax::SyntaxNode, out: &mut BTreeSet<String>) {
        let kids: Vec<&typst_syntax::SyntaxNode> = n.children().filter(|c| c.kind() != typst_syntax::SyntaxKind::Space).collect();
        for (i, c) in kids.iter().enumerate() {
            out.insert(format!("{:?}>{:?}", n.kind(), c.kind()));
            if i + 1 < kids.len() {
                out.insert(format!("{:?}>[{:?} {:?}]", n.kind(), c.kind(), kids[i + 1].kind()));
            }
            pairs(c, out);
        }
    }
    let m = Model::new();
    let mut have = BTreeSet::new();
    for sk in sweep::skeletons(&m, &all_ctx(), &[0, 1, 2], &[Size::Short]) {
        let t = m.instantiate(&sk);
        let r = tyv_model::syntax::parse(&t);
        if !r.erroneous() {
            pairs(&r, &mut have);
        }
    }
    for (_, t) in families::prose(2, false).into_iter().chain(families::math(2)).chain(families::markup_literals()).chain(families::imports(2, &[])) {
        let r = tyv_model::syntax::parse(&t);
        if !r.erroneous() {
            pairs(&r, &mut have);
        }
    }
    let mut missing: BTreeMap<String, (usize, String)> = BTreeMap::new();
    for f in files {
        let Ok(t) = std::fs::read_to_string(f) else { continue };
        let r = tyv_model::syntax::parse(&t);
        if r.erroneous() {
            continue;
        }
        let mut p = BTreeSet::new();
        pairs(&r, &mut p);
        for x in p {
            if !have.contains(&x) {
                let e = missing.entry(x).or_insert((0, f.clone()));
                e.0 += 1;
            }
        }
    }
    println!("model has {} kind pairs/triples; {} occur in the given files but not in the model:", have.len(), missing.len());
    for (k, (n, f)) in &missing {
        println!("{n:4} {k}   e.g. {f}");
    }
    0
}

fn plan_for(id: &str, thorough: bool) -> Option<Plan> {
    let m = Model::new();
    // blank_lines_upper_bound: the default 2 everywhere; the other values at two widths per input
    let blanks: Vec<usize> = if thorough { vec![0, 1, 3, usize::MAX] } else { vec![0, usize::MAX] };
    let std_policy = |tabs_sparse: &[usize]| CfgPolicy { blanks: blanks.clone(), tabs_edge: vec![0, 1], ..CfgPolicy::standard(if thorough { 400 } else { 160 }, &[2], tabs_sparse) };
    let sparse: &[usize] = if thorough { &[1, 3, 4, 8] } else { &[4] };
    let two_uses = "max_width is read in exactly two places of typstyle-core (doc.pretty(max_width) and Config::chain_width); for w >= W*(x) = max(longest line of F_inf(x), ceil(|x|/0.6)+2) the output equals F_inf(x), so [0, W*+3] plus the fixed extras covers all max_width >= 0 for that input".to_string();
    let wrapper = "sweeps call Typstyle::format_source on Source::new(fixed FileId, text) (what format_content does after Source::detached) to avoid typst_syntax's global FileId interner lock; the equality with format_content is re-checked once per input".to_string();
    let p = match id {
        "C01" => Plan {
            oracle: Box::new(oracles::tree::C01),
            levels: full_levels_without(
                &m,
                thorough,
                model::FORMS_ALL,
                model::FORMS_QUICK,
                &["nl", "bc", "lc", "sp", "none"],
                &["let/k2/dev1", "arg/named", "ctx*/k<=1/mid+tail"],
            ),
            extra: vec![
                ExtraLevel { name: "whitespace spellings (mixed newline styles, long runs)".into(), inputs: families::ws_spellings() },
                prose_extra(thorough),
                gen2_extra(&m, thorough),
            ],
            policy: std_policy(sparse),
            assumptions: vec![two_uses, wrapper, "typst_syntax 0.13.1 is the reference parser (same version as the subject's)".into()],
            model: m,
        },
        "C02" => {
            // the program sub-model: every context gets the prelude in front
            let mut m = m;
            for c in m.ctxs.iter_mut() {
                c.segs.insert(0, model::Seg::Lit(c02::PRELUDE.to_string()));
            }
            let ws = ["none", "sp", "nl", "nl2", "bc", "lc"];
            let all = all_ctx();
            let mut levels = vec![
                lvl("ctx*/k<=1/dev<=1", sweep::skeletons(&m, &all, &[0, 1], &[Size::Short]), &ws, &[]),
                lvl("main/k2/dev0", sweep::skeletons(&m, &MAIN_CTX, &[2], &[Size::Short]), &[], &[]),
            ];
            if thorough {
                levels.push(lvl("hash,let,math/k2/dev1", sweep::skeletons(&m, &["hash", "let", "math_i"], &[2], &[Size::Short]), &["nl", "bc", "none"], &[]));
                levels.push(lvl("ctx*/k2/dev1", sweep::skeletons(&m, &all, &[2], &[Size::Short]), &ws, &[]));
                levels.push(lvl("ctx*/k<=1/medium", sweep::skeletons(&m, &all, &[1], &[Size::Medium]), &ws, &[]));
                levels.push(lvl("core/k3-leaf/dev0", sweep::skeletons_f(&m, &CORE_CTX, &[3], &[Size::Short], SpineFilter::LeafLast), &[], &[]));
            }
            Plan {
                oracle: Box::new(c02::C02),
                levels,
                extra: vec![],
                policy: std_policy(sparse),
                assumptions: vec![
                    wrapper,
                    "self-contained programs under one prelude; no packages, no file access beyond the virtual module, embedded fonts only; pixel equality at 2 px/pt like the repository's own consistency harness".into(),
                    "the prelude (two short lines: a wildcard import of the virtual module and a show rule) is part of the formatted text; no width can break it".into(),
                ],
                model: m,
            }
        }
        "C03" => Plan {
            oracle: Box::new(oracles::basic::C03),
            // every configuration costs a second formatter pass, so the quick tier is smaller than C01's
            levels: if thorough {
                full_levels(&m, true, model::FORMS_ALL, model::FORMS_QUICK, &["nl", "nl2", "bc", "lc", "none"])
            } else {
                cheapest_first(vec![
                    lvl("ctx*/k<=1/dev<=1", sweep::skeletons(&m, &all_ctx(), &[0, 1], &[Size::Short]), model::FORMS_ALL, &[]),
                    lvl("ctx*/k<=1/mid atoms/layout forms", sweep::skeletons(&m, &all_ctx(), &[1], &[Size::AllMid]), &["nl", "nl_sp12", "nl2", "none", "lc", "bc"], &[]),
                    lvl("main/k2/dev0", sweep::skeletons(&m, &MAIN_CTX, &[2], &[Size::Short]), &[], &[]),
                    full_levels(&m, false, model::FORMS_ALL, model::FORMS_QUICK, &["nl"]).into_iter().find(|l| l.name.starts_with("codeblock,let,arg/chains")).unwrap(),
                ])
            },
            extra: vec![
                prose_extra(thorough),
                gen2_extra(&m, thorough),
                // what the trailing-blank pass sees: its first run must leave nothing for a second one
                ExtraLevel { name: "degenerate documents".into(), inputs: families::degenerate() },
                ExtraLevel { name: "line ends inside verbatim text: carriers x blank characters x LF/CRLF/CR/mixed x clean/dirty remainder".into(), inputs: families::line_ends() },
            ],
            policy: std_policy(sparse),
            assumptions: vec![two_uses, wrapper],
            model: m,
        },
        "C04" => Plan {
            oracle: Box::new(oracles::basic::C04),
            levels: full_levels_without(&m, thorough, model::FORMS_ALL, model::FORMS_QUICK, &["lc", "bc", "nl", "none"], &["codeblock,let,arg/chains", "ctx*/k<=1/mid+tail", "let,arg,codeblock/decorated"]),
            extra: vec![prose_extra(thorough), gen2_extra(&m, thorough)],
            policy: std_policy(sparse),
            assumptions: vec![two_uses, wrapper],
            model: m,
        },
        "C06" => Plan {
            oracle: Box::new(oracles::census::C06),
            levels: {
                let all = all_ctx();
                let mut v = vec![
                    lvl("ctx*/k<=1/1 comment", sweep::skeletons(&m, &all, &[0, 1], &[Size::Short, Size::Medium]), model::FORMS_COMMENT, &[]),
                    if thorough {
                        lvl("hash,let,math/k2/1 comment", sweep::skeletons(&m, &["hash", "let", "math_i"], &[2], &[Size::Short]), &["bc", "lc"], &[])
                    } else {
                        lvl("let/k2/1 comment", sweep::skeletons(&m, &["let"], &[2], &[Size::Short]), &["bc", "lc"], &[])
                    },
                    directive_args_level(&m, thorough, true),
                ];
                if thorough {
                    v.push(lvl("main/k2/1 comment", sweep::skeletons(&m, &MAIN_CTX, &[2], &[Size::Short]), &["bc", "lc", "nl_lc", "bc_ml", "bc_sp"], &[]));
                    v.push(lvl("ctx*/k<=1/2 comments", sweep::skeletons(&m, &all, &[1], &[Size::Short]), model::FORMS_COMMENT, &["bc", "lc", "nl_lc", "bc_sp"]));
                    v.push(lvl("ctx*/k2/1 comment", sweep::skeletons(&m, &all, &[2], &[Size::Short]), model::FORMS_COMMENT, &[]));
                    v.push(lvl("core/k3-leaf/1 comment", sweep::skeletons_f(&m, &CORE_CTX, &[3], &[Size::Short], SpineFilter::LeafLast), &["bc", "lc"], &[]));
                }
                v
            },
            extra: vec![],
            policy: std_policy(sparse),
            assumptions: vec![two_uses, wrapper],
            model: m,
        },
        "C07" => {
            let m = Model::with_ugly();
            let all = all_ctx();
            let mut levels = vec![
                lvl("ctx*/k<=2 ugly payload/directive at every gap", sweep::skeletons_f(&m, &all, &[1, 2], &[Size::Short], SpineFilter::UglyLast), &["off_bc", "off_lc"], &[]),
                lvl("ctx*/k<=1 ugly payload/directive variants", sweep::skeletons_f(&m, &all, &[1], &[Size::Short], SpineFilter::UglyLast), model::FORMS_DIRECTIVE, &[]),
                lvl("ctx*/k<=1 clean/directive at every gap", sweep::skeletons(&m, &all, &[1], &[Size::Short]), &["off_bc", "off_lc"], &[]),
            ];
            if thorough {
                levels.push(lvl("main/k3 ugly payload", sweep::skeletons_f(&m, &MAIN_CTX, &[3], &[Size::Short], SpineFilter::UglyLast), &["off_bc", "off_lc"], &[]));
                levels.push(lvl("main/k2 clean", sweep::skeletons(&m, &MAIN_CTX, &[2], &[Size::Short]), &["off_bc", "off_lc"], &[]));
            }
            Plan { oracle: Box::new(oracles::layout::C07), levels, extra: vec![], policy: std_policy(sparse), assumptions: vec![two_uses, wrapper], model: m }
        }
        "C08" => Plan {
            oracle: Box::new(oracles::ws::C08),
            levels: {
                let mk = ["doc", "item", "content_ml", "heading", "strong", "mixed"];
                let mut v = if thorough {
                    vec![lvl("markup ctx/k<=2/dev<=1", sweep::skeletons(&m, &mk, &[1, 2], &[Size::Short]), model::FORMS_QUICK, &[])]
                } else {
                    vec![
                        lvl("markup ctx/k<=1/dev<=1", sweep::skeletons(&m, &mk, &[1], &[Size::Short]), &model::FORMS_QUICK[..7], &[]),
                        lvl("markup ctx/k2/dev<=1 (line feed, none, line comment)", sweep::skeletons(&m, &mk, &[2], &[Size::Short]), &["nl", "none", "lc"], &[]),
                    ]
                };
                v.push(lvl("markup ctx/k<=1/every other line terminator", sweep::skeletons(&m, &mk, &[1], &[Size::Short]), model::FORMS_NEWLINES, &[]));
                v.push(directive_args_level(&m, thorough, false));
                if thorough {
                    v.push(lvl("markup ctx/k<=2/all forms", sweep::skeletons(&m, &mk, &[1, 2], &[Size::Short, Size::Medium]), model::FORMS_ALL, &[]));
                    v.push(lvl("markup ctx/k3/dev0", sweep::skeletons(&m, &["doc", "content_ml", "item"], &[3], &[Size::Short]), &[], &[]));
                }
                v
            },
            extra: vec![
                ExtraLevel { name: "whitespace spellings between words (mixed newline styles, long runs)".into(), inputs: families::ws_spellings() },
                ExtraLevel { name: format!("prose sequences <= {}", if thorough { 3 } else { 2 }), inputs: families::prose(if thorough { 3 } else { 2 }, true) },
            ],
            policy: std_policy(sparse),
            assumptions: vec![two_uses, wrapper],
            model: m,
        },
        "C09" => Plan {
            oracle: Box::new(oracles::ws::C09),
            levels: {
                let mk = ["math_i", "math_b", "math_hash", "let", "arg", "doc"];
                let mut v = if thorough {
                    vec![lvl("math ctx/k<=2/dev<=1", sweep::skeletons(&m, &mk, &[1, 2], &[Size::Short]), model::FORMS_QUICK, &[])]
                } else {
                    vec![
                        lvl("math ctx/k<=1/dev<=1", sweep::skeletons(&m, &mk, &[1], &[Size::Short]), &model::FORMS_QUICK[..7], &[]),
                        lvl("math ctx/k2/dev<=1 (line feed, none, block comment)", sweep::skeletons(&m, &mk, &[2], &[Size::Short]), &["nl", "none", "bc"], &[]),
                    ]
                };
                v.push(lvl("math ctx/k<=1/every other line terminator", sweep::skeletons(&m, &mk, &[1], &[Size::Short]), model::FORMS_NEWLINES, &[]));
                if thorough {
                    v.push(lvl("math ctx/k<=2/all forms", sweep::skeletons(&m, &mk, &[1, 2], &[Size::Short, Size::Medium]), model::FORMS_ALL, &[]));
                    v.push(lvl("math ctx/k3/dev0", sweep::skeletons(&m, &["math_i", "math_b"], &[3], &[Size::Short]), &[], &[]));
                }
                v
            },
            extra: vec![
                ExtraLevel { name: format!("math sequences <= {}", if thorough { 3 } else { 2 }), inputs: families::math(if thorough { 3 } else { 2 }) },
                ExtraLevel { name: "whitespace spellings between math items (mixed newline styles, long runs)".into(), inputs: families::ws_spellings() },
            ],
            policy: std_policy(sparse),
            assumptions: vec![two_uses, wrapper],
            model: m,
        },
        "C10" => {
            let wr = literal_wrappers(&m, if thorough { &[0, 1, 2] } else { &[0, 1] });
            let wr2 = if thorough { literal_wrappers(&m, &[3]).into_iter().step_by(997).collect() } else { vec![] };
            let mut extra = vec![
                ExtraLevel { name: "literal alphabet x context spines".into(), inputs: families::literals_in(&wr) },
                ExtraLevel { name: "markup literal alphabet x markup contexts".into(), inputs: families::markup_literals() },
            ];
            if thorough {
                extra.push(ExtraLevel { name: "literal alphabet x every 997th k=3 spine".into(), inputs: families::literals_in(&wr2) });
            }
            Plan {
                oracle: Box::new(oracles::census::C10),
                levels: vec![lvl("ctx*/k<=1/dev<=1", sweep::skeletons(&m, &all_ctx(), &[0, 1], &[Size::Short]), model::FORMS_QUICK, &[])],
                extra,
                policy: std_policy(sparse),
                assumptions: vec![two_uses, wrapper],
                model: m,
            }
        }
        "C11" => Plan {
            oracle: Box::new(oracles::basic::C11),
            levels: full_levels_without(
                &m,
                thorough,
                model::FORMS_ALL,
                model::FORMS_QUICK,
                &["sp", "tab", "nl", "bc_sp", "lc_sp"],
                &["let/k2/dev1", "arg/named", "codeblock,let,arg/chains", "let,arg,codeblock/decorated", "ctx*/k<=1/mid+tail"],
            ),
            extra: vec![
                ExtraLevel { name: "degenerate documents".into(), inputs: families::degenerate() },
                ExtraLevel { name: "line ends inside verbatim text: carriers x blank characters x LF/CRLF/CR/mixed x clean/dirty remainder".into(), inputs: families::line_ends() },
                ExtraLevel { name: "whitespace spellings (mixed newline styles, long runs)".into(), inputs: families::ws_spellings() },
            ],
            policy: std_policy(sparse),
            assumptions: vec![two_uses, wrapper],
            model: m,
        },
        "C12" => Plan {
            oracle: Box::new(oracles::layout::C12),
            levels: {
                let lf = ["nl", "nl2", "lc", "nl_lc", "bc_ml", "nl_sp", "bc_star"];
                let all = all_ctx();
                let mut v = vec![
                    lvl("ctx*/k<=1/linefeed dev<=1", sweep::skeletons(&m, &all, &[0, 1], &[Size::Short]), &lf, &[]),
                    lvl("main/k2/dev0", sweep::skeletons(&m, &MAIN_CTX, &[2], &[Size::Short]), &[], &[]),
                    if thorough {
                        lvl("hash,let/k2/nl", sweep::skeletons(&m, &["hash", "let"], &[2], &[Size::Short]), &["nl"], &[])
                    } else {
                        lvl("let/k2/nl", sweep::skeletons(&m, &["let"], &[2], &[Size::Short]), &["nl"], &[])
                    },
                ];
                if thorough {
                    v.push(lvl("main/k2/linefeed dev<=1", sweep::skeletons(&m, &MAIN_CTX, &[2], &[Size::Short]), &["nl", "lc", "bc_ml"], &[]));
                    v.push(lvl("ctx*/k2/linefeed dev<=1", sweep::skeletons(&m, &all, &[2], &[Size::Short]), &lf, &[]));
                    v.push(lvl("core/k3/dev0", sweep::skeletons(&m, &CORE_CTX, &[3], &[Size::Short]), &[], &[]));
                    v.push(lvl("core/k3-leaf/nl", sweep::skeletons_f(&m, &CORE_CTX, &[3], &[Size::Short], SpineFilter::LeafLast), &["nl"], &[]));
                }
                v
            },
            extra: vec![],
            policy: CfgPolicy {
                widths: Widths::HugeThenAll { cap: if thorough { 200 } else { 60 } },
                tabs_full: vec![1, 2, 3, 4, 5, 6, 7, 8],
                tabs_sparse: vec![3, 5, 7],
                reorder: vec![false],
                blanks: vec![],
                tabs_edge: vec![],
            },
            assumptions: vec![wrapper, "no-wrap width = 10^4 * (1 + |x|), beyond any line the formatter can produce for x".into()],
            model: m,
        },
        "C13" => {
            let all = all_ctx();
            let mut levels = vec![lvl("ctx*/k<=1/dev<=1", sweep::skeletons(&m, &all, &[0, 1], &[Size::Short]), if thorough { model::FORMS_QUICK } else { &model::FORMS_QUICK[..6] }, &[])];
            // every Typst line terminator that is not LF (multi-byte ones included) in the contexts whose
            // column arithmetic depends on "the last line break before the node"
            levels.push(lvl(
                "markup,math ctx/k<=1/every other line terminator",
                sweep::skeletons(&m, &["doc", "item", "content_ml", "heading", "mixed", "math_b"], &[0, 1], &[Size::Short]),
                &["crlf", "cr", "ls", "ff", "nel", "ps"],
                &[],
            ));
            if thorough {
                levels.push(lvl("ctx*/k<=1/all forms", sweep::skeletons(&m, &all, &[0, 1], &[Size::Short]), model::FORMS_ALL, &[]));
                levels.push(lvl("main/k2/dev0", sweep::skeletons(&m, &MAIN_CTX, &[2], &[Size::Short]), &[], &[]));
                levels.push(lvl("hash,let,doc/k2/dev1", sweep::skeletons(&m, &["hash", "let", "doc"], &[2], &[Size::Short]), &["nl", "lc", "bc", "none"], &[]));
            }
            // single-character damages of the canonical instances
            let mut damaged = vec![];
            for sk in sweep::skeletons(&m, &all, &[0, 1], &[Size::Short]) {
                let t = m.instantiate(&sk);
                let d = m.describe(&sk);
                let idx: Vec<usize> = t.char_indices().map(|x| x.0).collect();
                for (n, &i) in idx.iter().enumerate() {
                    let c = t[i..].chars().next().unwrap();
                    let end = i + c.len_utf8();
                    damaged.push((format!("damage:delete@{n}:{d}"), format!("{}{}", &t[..i], &t[end..])));
                    if thorough {
                        damaged.push((format!("damage:dup@{n}:{d}"), format!("{}{}{}", &t[..end], c, &t[end..])));
                        for r in ['(', ')', '[', ']', '{', '}', '$', '"', '#', '*'] {
                            damaged.push((format!("damage:replace:{r}@{n}:{d}"), format!("{}{}{}", &t[..i], r, &t[end..])));
                        }
                    }
                }
            }
            damaged.sort_by(|a, b| a.1.cmp(&b.1));
            damaged.dedup_by(|a, b| a.1 == b.1);
            Plan {
                oracle: Box::new(oracles::range::C13),
                levels,
                extra: vec![ExtraLevel { name: if thorough { "single-character damages (delete, duplicate, replace)".into() } else { "single-character damages (delete)".into() }, inputs: damaged }],
                policy: CfgPolicy { widths: Widths::Fixed(vec![80, 0]), tabs_full: vec![2], tabs_sparse: if thorough { vec![4] } else { vec![] }, reorder: vec![false], blanks: if thorough { vec![0, usize::MAX] } else { vec![] }, tabs_edge: if thorough { vec![0, 1] } else { vec![] } },
                assumptions: vec![
                    "format_source_range is called on Source::new(fixed FileId, text); one Source per (input, configuration)".into(),
                    "configurations: (w=80,tab=2), (w=0,tab=2); thorough adds tab=4".into(),
                ],
                model: m,
            }
        }
        "C19" => Plan {
            oracle: Box::new(oracles::imports::C19),
            levels: vec![lvl(
                "import productions in context/dev<=1",
                {
                    let mut s = vec![];
                    for sk in sweep::skeletons(&m, &["hash", "codeblock", "mixed", "nested_code", "content_ml"], &[1, 2], &[Size::Short]) {
                        let last = sk.spine.last().map(|p| m.prods[p.0].name).unwrap_or("");
                        if last.starts_with("import") {
                            s.push(sk);
                        }
                    }
                    s
                },
                if thorough { model::FORMS_ALL } else { &model::FORMS_QUICK[..8] },
                if thorough { &["bc", "lc", "nl", "none"] } else { &[] },
            )],
            extra: vec![ExtraLevel {
                name: format!("import statements: item sequences <= {}", if thorough { 4 } else { 3 }),
                inputs: families::imports(
                    if thorough { 4 } else { 3 },
                    &[("bc", "/*c*/"), ("lc", "//c\n"), ("bc_sp", " /*c*/ "), ("nl", "\n")],
                ),
            }],
            policy: CfgPolicy { widths: Widths::All { cap: 160 }, tabs_full: vec![2], tabs_sparse: vec![], reorder: vec![false, true], blanks: vec![], tabs_edge: vec![] },
            assumptions: vec![two_uses, wrapper],
            model: m,
        },
        _ => return None,
    };
    Some(p)
}

fn caps(thorough: bool) -> Duration {
    let env = std::env::var("VERIF_WALL_CAP_S").ok().and_then(|s| s.parse::<u64>().ok());
    Duration::from_secs(env.unwrap_or(if thorough { 12 * 60 } else { 300 }))
}

fn run_check(id: &str, tier: Option<&str>, mode: Mode) -> i32 {
    let tier = report::tier_from_env(tier);
    let seed = report::seed_from_env();
    let start = Instant::now();
    let thorough = tier == "thorough";
    let threads = std::thread::available_parallelism().map(|n| n.get()).unwrap_or(8);
    let Some(plan) = plan_for(id, thorough) else {
        eprintln!("MACHINERY: unknown check {id}");
        return 2;
    };
    if mode == Mode::Plan {
        for l in &plan.levels {
            println!("level {:40} skeletons={:8} dev1={} dev2={}", l.name, l.skeletons.len(), l.dev1.len(), l.dev2.len());
        }
        for l in &plan.extra {
            println!("extra {:40} inputs={}", l.name, l.inputs.len());
        }
        return 0;
    }
    let subject = Real;
    let spec = SweepSpec { model: &plan.model, levels: plan.levels, extra: plan.extra, policy: plan.policy, wall_cap: caps(thorough), threads, seed };
    let res = sweep::run(&spec, &subject, plan.oracle.as_ref());
    if mode == Mode::Triage {
        report::triage(&res.failures);
    }
    let mut res = res;
    if id == "C02" {
        res.coverage.extra.insert("compiles".into(), serde_json::json!(c02::COMPILES.load(std::sync::atomic::Ordering::Relaxed)));
        res.coverage.extra.insert("inputs_that_compile".into(), serde_json::json!(c02::COMPILED_OK.load(std::sync::atomic::Ordering::Relaxed)));
    }
    let out = Outcome {
        property: id.to_string(),
        tier,
        seed,
        coverage: res.coverage,
        assumptions: plan.assumptions,
        failures: res.failures,
        wall_s: start.elapsed().as_secs_f64(),
    };
    let oracle = plan.oracle;
    let policy = spec.policy.clone();
    report::finish(out, &|kf: &KnownFinding| example_fails(&subject, oracle.as_ref(), &policy, kf))
}

/// Re-check the exact example of a known finding on the current tree.
fn example_fails(subject: &dyn Subject, oracle: &dyn Oracle, policy: &CfgPolicy, kf: &KnownFinding) -> bool {
    let Some(input) = kf.example.get("input").and_then(|v| v.as_str()) else { return false };
    let root = tyv_model::syntax::parse(input);
    if root.erroneous() {
        return false;
    }
    let cfgs = policy.configs(subject, input);
    let mut counters = (0, 0, 0);
    let v = sweep::eval_input(subject, oracle, input, &root, &cfgs, |_| {}, &mut counters);
    let want = kf.example.get("clause").and_then(|v| v.as_str());
    v.fails.iter().any(|(f, _)| want.is_none_or(|w| w == f.clause))
}

fn run_named(id: &str) -> i32 {
    match id {
        "C16" => cli::run_c16("quick", 0),
        "C18" => c18::run("quick", 0),
        _ => 2,
    }
}

fn replay(path: &str) -> i32 {
    let Ok(s) = std::fs::read_to_string(path) else {
        eprintln!("MACHINERY: cannot read {path}");
        return 2;
    };
    let v: serde_json::Value = match serde_json::from_str(&s) {
        Ok(v) => v,
        Err(e) => {
            eprintln!("MACHINERY: bad replay file: {e}");
            return 2;
        }
    };
    let property = v["property"].as_str().unwrap_or("");
    let input = v["input"].as_str().unwrap_or("");
    match property {
        "C05" => return c05::replay(&v, path),
        "C14" | "C15" => return cli::replay(&v, path),
        "C17" => return c17::replay(&v, path),
        "C16" | "C18" => {
            println!("replay {property}: {}", v["detail"].as_str().unwrap_or(""));
            println!("this engine replays by re-running the (fast, deterministic) quick check: ./check {property} quick");
            return run_named(property);
        }
        _ => {}
    }
    let Some(plan) = plan_for(property, false) else {
        eprintln!("MACHINERY: no replay for {property}");
        return 2;
    };
    let subject = Real;
    let root = tyv_model::syntax::parse(input);
    if root.erroneous() {
        println!("input no longer parses without errors");
        return 2;
    }
    // the recorded configuration first, then the whole policy
    let mut cfgs: Vec<Cfg> = vec![];
    if let Ok(c) = serde_json::from_value::<Cfg>(v["cfg"].clone()) {
        cfgs.push(c);
    }
    cfgs.extend(plan.policy.configs(&subject, input));
    let mut counters = (0, 0, 0);
    let verdict = sweep::eval_input(&subject, plan.oracle.as_ref(), input, &root, &cfgs, |_| {}, &mut counters);
    println!("replay {property}: input={}", tyv_model::syntax::esc(input));
    if verdict.fails.is_empty() {
        println!("PASS: the property holds for this input under {} configurations", cfgs.len());
        0
    } else {
        for (f, c) in &verdict.fails {
            println!("FAIL clause={} cfg={} :: {}", f.clause, c.show(), tyv_model::syntax::esc(&f.detail));
        }
        println!("VIOLATION property={property} replay={path}");
        1
    }
}
