//! tyv: binds the engines of tyv-model to the typstyle-core of /repo's working tree.

use std::ops::Range;
use std::time::{Duration, Instant};

use tyv_model::model::{self, Model, Size};
use tyv_model::oracles;
use tyv_model::report::{self, Outcome};
use tyv_model::subject::{Cfg, Refused, Subject};
use tyv_model::sweep::{self, CfgPolicy, Level, Oracle, SweepSpec};
use typst_syntax::Source;
use typstyle_core::{Config, Typstyle};

pub struct Real;

fn to_config(c: &Cfg) -> Config {
    Config { max_width: c.max_width, tab_spaces: c.tab_spaces, reorder_import_items: c.reorder, ..Default::default() }
}

impl Subject for Real {
    fn format(&self, text: &str, cfg: &Cfg) -> Result<String, Refused> {
        static ID: std::sync::OnceLock<typst_syntax::FileId> = std::sync::OnceLock::new();
        let id = *ID.get_or_init(|| Source::detached("").id());
        let src = Source::new(id, text.to_string());
        Typstyle::new(to_config(cfg)).format_source(&src).map_err(|_| Refused)
    }
    fn format_content(&self, text: &str, cfg: &Cfg) -> Result<String, Refused> {
        Typstyle::new(to_config(cfg)).format_content(text).map_err(|_| Refused)
    }
    fn format_with_width(&self, text: &str, width: usize) -> String {
        typstyle_core::format_with_width(text, width)
    }
    fn format_range(&self, text: &str, range: Range<usize>, cfg: &Cfg) -> Result<(Range<usize>, String), Refused> {
        let src = Source::detached(text);
        Typstyle::new(to_config(cfg)).format_source_range(&src, range).map_err(|_| Refused)
    }
}

fn main() {
    std::panic::set_hook(Box::new(|_| {}));
    let args: Vec<String> = std::env::args().collect();
    if args.len() < 2 {
        eprintln!("usage: tyv <Cxx> [quick|thorough] | tyv triage <Cxx> [tier] | tyv replay <file>");
        std::process::exit(2);
    }
    let code = match args[1].as_str() {
        "triage" => run_check(&args[2], args.get(3).map(|s| s.as_str()), true),
        "show" => {
            show(&args[2..]);
            0
        }
        id => run_check(id, args.get(2).map(|s| s.as_str()), false),
    };
    std::process::exit(code);
}

fn show(args: &[String]) {
    // tyv show <ctx> <k>  : print instantiated skeletons (debug aid)
    let m = Model::new();
    let k: usize = args.get(1).and_then(|s| s.parse().ok()).unwrap_or(1);
    let sks = sweep::skeletons(&m, &[args[0].as_str()], &[k], &[Size::Short]);
    let mut bad = 0;
    for sk in &sks {
        let t = m.instantiate(sk);
        let ok = tyv_model::syntax::wellformed(&t);
        if !ok {
            bad += 1;
        }
        println!("{} {} :: {}", if ok { "ok " } else { "BAD" }, m.describe(sk), tyv_model::syntax::esc(&t));
    }
    println!("{} skeletons, {} ill-formed", sks.len(), bad);
}

fn run_check(id: &str, tier: Option<&str>, triage: bool) -> i32 {
    let tier = report::tier_from_env(tier);
    let seed = report::seed_from_env();
    let start = Instant::now();
    let model = Model::new();
    let subject = Real;
    let thorough = tier == "thorough";
    let threads = std::thread::available_parallelism().map(|n| n.get()).unwrap_or(8);
    let wall_cap = Duration::from_secs(if thorough { 35 * 60 } else { 50 });

    let oracle: Box<dyn Oracle> = match id {
        "C03" => Box::new(oracles::basic::C03),
        "C04" => Box::new(oracles::basic::C04),
        "C11" => Box::new(oracles::basic::C11),
        _ => {
            eprintln!("unknown check {id}");
            return 2;
        }
    };
    let main_ctx = ["doc", "hash", "let", "codeblock", "arg", "math_i", "math_b", "mixed", "item", "content_ml"];
    let levels = vec![
        Level { name: "k1/dev<=1".into(), skeletons: sweep::skeletons(&model, &main_ctx, &[0, 1], &[Size::Short, Size::Medium]), dev1: model::forms(model::FORMS_ALL), dev2: vec![] },
        Level { name: "k2/dev0".into(), skeletons: sweep::skeletons(&model, &main_ctx, &[2], &[Size::Short]), dev1: vec![], dev2: vec![] },
    ];
    let spec = SweepSpec {
        model: &model,
        levels,
        extra: vec![],
        policy: CfgPolicy::standard(160, &[2], &[4]),
        wall_cap,
        threads,
        seed,
    };
    let res = sweep::run(&spec, &subject, oracle.as_ref());
    if triage {
        report::triage(&res.failures);
    }
    let out = Outcome {
        property: id.to_string(),
        tier,
        seed,
        coverage: res.coverage,
        assumptions: vec![],
        failures: res.failures,
        wall_s: start.elapsed().as_secs_f64(),
    };
    report::finish(out, &|_| true)
}
