//! E4 / C18: cost explorer. Enumerates all cyclic nesting paths over the recursive-construct
//! alphabet, unrolls each to a ladder of depths and reads the per-node conversion counters kept by
//! the `--cfg typstyle_verif` hooks of typstyle-core.

use std::collections::HashSet;
use std::sync::atomic::{AtomicBool, AtomicU64, AtomicUsize, Ordering};
use std::sync::Mutex;
use std::time::{Duration, Instant};

use serde_json::json;
use typst_syntax::Source;
use typstyle_core::{verif_hooks, Config, Typstyle};
use tyv_model::report::{self, Coverage, Failure, Outcome};
use tyv_model::subject::{guarded, Cfg};
use tyv_model::syntax::{self, esc};

/// sort of the construct / sort of its recursion hole
#[derive(Clone, Copy, PartialEq, Eq, Debug)]
enum S {
    E, // code expression
    M, // markup
    X, // math
}

struct R {
    name: &'static str,
    sort: S,
    hole: S,
    pre: &'static str,
    post: &'static str,
}

const ALPHABET: &[R] = &[
    R { name: "call_arg", sort: S::E, hole: S::E, pre: "f(", post: ")" },
    R { name: "call_arg2", sort: S::E, hole: S::E, pre: "f(a, ", post: ", b)" },
    R { name: "chain_arg", sort: S::E, hole: S::E, pre: "a.b.c(", post: ")" },
    R { name: "chain_target", sort: S::E, hole: S::E, pre: "", post: ".f(x).g(y)" },
    R { name: "array_item", sort: S::E, hole: S::E, pre: "(1, ", post: ")" },
    R { name: "dict_value", sort: S::E, hole: S::E, pre: "(k: ", post: ")" },
    R { name: "paren", sort: S::E, hole: S::E, pre: "(", post: ")" },
    R { name: "closure_body", sort: S::E, hole: S::E, pre: "x => ", post: "" },
    R { name: "code_block", sort: S::E, hole: S::E, pre: "{ ", post: " }" },
    R { name: "code_block2", sort: S::E, hole: S::E, pre: "{\n  let q = 1\n  ", post: "\n}" },
    R { name: "content_block", sort: S::E, hole: S::M, pre: "[", post: "]" },
    R { name: "trailing_content", sort: S::E, hole: S::M, pre: "f(a)[", post: "]" },
    R { name: "cond_branch", sort: S::E, hole: S::E, pre: "if c { ", post: " } else { d }" },
    R { name: "cond_else_if", sort: S::E, hole: S::E, pre: "if c { d } else ", post: "" },
    R { name: "binary_left", sort: S::E, hole: S::E, pre: "(", post: ") + 1" },
    R { name: "binary_right", sort: S::E, hole: S::E, pre: "1 + (", post: ")" },
    R { name: "binary_chain", sort: S::E, hole: S::E, pre: "1 * ", post: " + 2" },
    R { name: "unary", sort: S::E, hole: S::E, pre: "-", post: "" },
    R { name: "not", sort: S::E, hole: S::E, pre: "not ", post: "" },
    R { name: "named_arg", sort: S::E, hole: S::E, pre: "f(k: ", post: ")" },
    R { name: "table_cell", sort: S::E, hole: S::E, pre: "table(columns: 2, a, ", post: ", b)" },
    // every layout with a fallback: both answers of the deciding predicate
    R { name: "table_hline_after", sort: S::E, hole: S::E, pre: "table(columns: 2, ", post: ", table.hline(), b)" },
    R { name: "grid_cell_after", sort: S::E, hole: S::E, pre: "grid(columns: 2, ", post: ", grid.cell(b))" },
    R { name: "table_spread_after", sort: S::E, hole: S::E, pre: "table(columns: 2, ", post: ", ..d)" },
    R { name: "table_named_after", sort: S::E, hole: S::E, pre: "table(columns: 2, ", post: ", stroke: none)" },
    R { name: "table_header", sort: S::E, hole: S::E, pre: "table(columns: 2, table.header(", post: "), b)" },
    R { name: "table_no_columns", sort: S::E, hole: S::E, pre: "table(", post: ", b)" },
    R { name: "table_comment", sort: S::E, hole: S::E, pre: "table(columns: 2, /*c*/ ", post: ", b)" },
    R { name: "grid_content", sort: S::E, hole: S::M, pre: "grid(columns: 2, [", post: "], [b])" },
    R { name: "chain_comment", sort: S::E, hole: S::E, pre: "a.b/*c*/.c(", post: ")" },
    R { name: "chain_two_calls", sort: S::E, hole: S::E, pre: "a.b(x).c(", post: ")" },
    R { name: "chain_long_idents", sort: S::E, hole: S::E, pre: "alpha_beta_gamma_delta.epsilon_zeta_eta_theta.iota_kappa_lambda(", post: ")" },
    R { name: "chain_trailing_content", sort: S::E, hole: S::M, pre: "a.b.c(x)[", post: "]" },
    R { name: "paren_comment", sort: S::E, hole: S::E, pre: "(/*c*/ ", post: ")" },
    R { name: "array_comment", sort: S::E, hole: S::E, pre: "(1, // c\n  ", post: ")" },
    R { name: "array_multiline", sort: S::E, hole: S::E, pre: "(\n  1,\n  ", post: ",\n)" },
    R { name: "args_named_only", sort: S::E, hole: S::E, pre: "f(k: 1, l: ", post: ")" },
    R { name: "args_spread", sort: S::E, hole: S::E, pre: "f(..", post: ")" },
    R { name: "closure_params", sort: S::E, hole: S::E, pre: "(x, y: ", post: ") => x" },
    R { name: "closure_block", sort: S::E, hole: S::E, pre: "x => { ", post: " }" },
    R { name: "for_iterable", sort: S::E, hole: S::E, pre: "for p in ", post: " { p }" },
    R { name: "for_body", sort: S::E, hole: S::E, pre: "for p in d { ", post: " }" },
    R { name: "while_body", sort: S::E, hole: S::E, pre: "while c { ", post: " }" },
    R { name: "show_transform", sort: S::E, hole: S::E, pre: "{ show a: ", post: " }" },
    R { name: "set_arg", sort: S::E, hole: S::E, pre: "{ set f(k: ", post: ") }" },
    R { name: "context", sort: S::E, hole: S::E, pre: "context ", post: "" },
    R { name: "destructure_rhs", sort: S::E, hole: S::E, pre: "{ let (p, q) = ", post: " }" },
    R { name: "dict_keyed", sort: S::E, hole: S::E, pre: "(\"k\": ", post: ")" },
    R { name: "return_value", sort: S::E, hole: S::E, pre: "x => { return ", post: " }" },
    R { name: "field_of_paren", sort: S::E, hole: S::E, pre: "(", post: ").f" },
    R { name: "assign", sort: S::E, hole: S::E, pre: "{ v = ", post: " }" },
    R { name: "include", sort: S::E, hole: S::E, pre: "{ include ", post: " }" },
    R { name: "equation", sort: S::E, hole: S::X, pre: "$", post: "$" },
    R { name: "let_in_block", sort: S::E, hole: S::E, pre: "{ let v = ", post: " }" },
    R { name: "hash_expr", sort: S::M, hole: S::E, pre: "#", post: "" },
    R { name: "strong", sort: S::M, hole: S::M, pre: "*a ", post: "*" },
    R { name: "list_item", sort: S::M, hole: S::M, pre: "- a\n  ", post: "" },
    R { name: "enum_item", sort: S::M, hole: S::M, pre: "+ ", post: "" },
    R { name: "term_item", sort: S::M, hole: S::M, pre: "/ t: ", post: "" },
    R { name: "text_then", sort: S::M, hole: S::M, pre: "foo ", post: " bar" },
    R { name: "math_paren", sort: S::X, hole: S::X, pre: "(", post: ")" },
    R { name: "math_call", sort: S::X, hole: S::X, pre: "f(", post: ")" },
    R { name: "math_call2d", sort: S::X, hole: S::X, pre: "mat(1, ", post: "; 2, 3)" },
    R { name: "math_sub", sort: S::X, hole: S::X, pre: "x_(", post: ")" },
    R { name: "math_frac", sort: S::X, hole: S::X, pre: "(", post: ")/2" },
    R { name: "math_hash", sort: S::X, hole: S::E, pre: "#", post: "" },
    R { name: "math_abs", sort: S::X, hole: S::X, pre: "|", post: "|" },
    R { name: "math_sup", sort: S::X, hole: S::X, pre: "x^(", post: ")" },
    R { name: "math_root", sort: S::X, hole: S::X, pre: "√(", post: ")" },
    R { name: "math_call_ml", sort: S::X, hole: S::X, pre: "f(\n  ", post: "\n)" },
    R { name: "math_call_comment", sort: S::X, hole: S::X, pre: "f(/*c*/ ", post: ")" },
    R { name: "math_brace", sort: S::X, hole: S::X, pre: "{", post: "}" },
    R { name: "math_named", sort: S::X, hole: S::X, pre: "f(k: ", post: ")" },
    R { name: "heading", sort: S::M, hole: S::M, pre: "= ", post: "" },
    R { name: "emph", sort: S::M, hole: S::M, pre: "_a ", post: "_" },
    R { name: "ref_supplement", sort: S::M, hole: S::M, pre: "@ref[", post: "]" },
    R { name: "content_ml", sort: S::M, hole: S::M, pre: "#[\n  ", post: "\n]" },
    R { name: "inline_eq", sort: S::M, hole: S::X, pre: "$", post: "$" },
    R { name: "block_eq", sort: S::M, hole: S::X, pre: "$ ", post: " $" },
];

fn atom(s: S, variant: usize) -> &'static str {
    match (s, variant) {
        (S::E, 0) => "z",
        (S::E, 1) => "g(/*c*/ z)",
        (S::E, _) => "g(\n  z,\n)",
        (S::M, 0) => "z",
        (S::M, 1) => "z /*c*/",
        (S::M, _) => "z\nz",
        (S::X, 0) => "z",
        (S::X, 1) => "z /*c*/",
        (S::X, _) => "z \\\n z",
    }
}

fn indent_fill(out: &mut String, filler: &str) {
    if !filler.contains('\n') {
        out.push_str(filler);
        return;
    }
    let line_start = out.rfind('\n').map(|i| i + 1).unwrap_or(0);
    let indent: String = out[line_start..].chars().take_while(|c| *c == ' ').collect();
    for (i, l) in filler.split('\n').enumerate() {
        if i > 0 {
            out.push('\n');
            if !l.is_empty() {
                out.push_str(&indent);
            }
        }
        out.push_str(l);
    }
}

/// Unroll the cyclic path `path` to nesting depth `depth` (number of constructs), innermost atom variant `v`.
fn build(path: &[usize], depth: usize, v: usize, position: usize) -> String {
    fn rec(path: &[usize], i: usize, depth: usize, v: usize) -> String {
        let r = &ALPHABET[path[i % path.len()]];
        let inner = if i + 1 == depth { atom(r.hole, v).to_string() } else { rec(path, i + 1, depth, v) };
        let mut out = String::from(r.pre);
        indent_fill(&mut out, &inner);
        out.push_str(r.post);
        out
    }
    let body = rec(path, 0, depth, v);
    let first = ALPHABET[path[0]].sort;
    // position 0: markup position; 1: code position (inside a code block)
    let mut out = String::new();
    match (first, position) {
        (S::E, 0) => {
            out.push_str("#let v = ");
            indent_fill(&mut out, &body);
        }
        (S::E, _) => {
            out.push_str("#{\n  ");
            indent_fill(&mut out, &body);
            out.push_str("\n}");
        }
        (S::M, 0) => out.push_str(&body),
        (S::M, _) => {
            out.push_str("#{\n  [");
            indent_fill(&mut out, &body);
            out.push_str("]\n}");
        }
        (S::X, 0) => {
            out.push('$');
            out.push_str(&body);
            out.push('$');
        }
        (S::X, _) => {
            out.push_str("#{\n  $ ");
            indent_fill(&mut out, &body);
            out.push_str(" $\n}");
        }
    }
    out
}

fn cyclic_paths(max_len: usize) -> Vec<Vec<usize>> {
    let mut res = vec![];
    let n = ALPHABET.len();
    fn rec(cur: &mut Vec<usize>, max_len: usize, n: usize, res: &mut Vec<Vec<usize>>) {
        if !cur.is_empty() {
            let first = &ALPHABET[cur[0]];
            let last = &ALPHABET[*cur.last().unwrap()];
            if last.hole == first.sort {
                res.push(cur.clone());
            }
        }
        if cur.len() == max_len {
            return;
        }
        for i in 0..n {
            if let Some(&l) = cur.last() {
                if ALPHABET[l].hole != ALPHABET[i].sort {
                    continue;
                }
            }
            cur.push(i);
            rec(cur, max_len, n, res);
            cur.pop();
        }
    }
    rec(&mut vec![], max_len, n, &mut res);
    res
}

fn count_nodes(n: &typst_syntax::SyntaxNode) -> u64 {
    1 + n.children().map(count_nodes).sum::<u64>()
}

pub const MAX_PER_NODE: u32 = 8;

pub fn run(tier: &str, seed: u64) -> i32 {
    let start = Instant::now();
    let thorough = tier == "thorough";
    let max_len = if thorough { 3 } else { 2 };
    let paths = cyclic_paths(max_len);
    let depths: Vec<usize> = if thorough { vec![4, 8, 16, 32, 64, 128, 256] } else { vec![4, 8, 16, 32, 64] };
    let widths = [0usize, 20, 40, 80, 120];
    let wall_cap = Duration::from_secs(std::env::var("VERIF_WALL_CAP_S").ok().and_then(|s| s.parse().ok()).unwrap_or(if thorough { 12 * 60 } else { 300 }));
    let threads = std::thread::available_parallelism().map(|n| n.get()).unwrap_or(8);

    let next = AtomicUsize::new(0);
    let stop = AtomicBool::new(false);
    let failures: Mutex<Vec<Failure>> = Mutex::new(vec![]);
    let texts: Mutex<HashSet<u64>> = Mutex::new(HashSet::new());
    let calls = AtomicU64::new(0);
    let families_done = AtomicUsize::new(0);
    let max_ratio_milli = AtomicU64::new(0);
    let max_per_node_seen = AtomicU64::new(0);
    let slowest_us = AtomicU64::new(0);
    let samples: Mutex<Vec<serde_json::Value>> = Mutex::new(vec![]);
    // watchdog state: per worker (start instant in ms since `start`, description)
    let current: Vec<Mutex<Option<(Instant, String)>>> = (0..threads).map(|_| Mutex::new(None)).collect();
    let finished = AtomicBool::new(false);

    std::thread::scope(|sc| {
        // watchdog: a single case that runs 20 s is a blow-up the counters did not see
        sc.spawn(|| {
            while !finished.load(Ordering::Relaxed) {
                std::thread::sleep(Duration::from_millis(200));
                for c in &current {
                    let g = c.lock().unwrap();
                    if let Some((t0, what)) = &*g {
                        if t0.elapsed() > Duration::from_secs(20) {
                            println!("VIOLATION property=C18 replay={}/replays/C18/hang.json", report::out_root());
                            println!("  clause=hang: formatting did not finish within 20 s: {what}");
                            let _ = std::fs::create_dir_all(format!("{}/replays/C18", report::out_root()));
                            let _ = std::fs::write(&format!("{}/replays/C18/hang.json", report::out_root()), json!({"property": "C18", "clause": "hang", "case": what}).to_string());
                            let ev = json!({"property_id": "C18", "tier": tier, "seed": seed as i64, "level": "model_checking",
                                "coverage": {"states": 1, "transitions": 1, "traces_validated_against_impl": 1, "evaluations": 1, "distinct_nontrivial": 2,
                                   "samples": [what], "exhaustive": false, "rule": "aborted by the hang watchdog"}, "wall_s": start.elapsed().as_secs_f64(), "violations": 1});
                            let _ = std::fs::write(format!("{}/evidence/C18.json", report::out_root()), ev.to_string());
                            std::process::exit(1);
                        }
                    }
                }
            }
        });
        let mut handles = vec![];
        for wi in 0..threads {
            let (next, stop, failures, texts, calls, families_done, max_ratio_milli, max_per_node_seen, slowest_us, samples, current, paths, depths) =
                (&next, &stop, &failures, &texts, &calls, &families_done, &max_ratio_milli, &max_per_node_seen, &slowest_us, &samples, &current, &paths, &depths);
            handles.push(
                std::thread::Builder::new()
                    .stack_size(256 << 20)
                    .spawn_scoped(sc, move || {
                        let mut local_texts: HashSet<u64> = HashSet::new();
                        loop {
                            if start.elapsed() > wall_cap {
                                stop.store(true, Ordering::Relaxed);
                            }
                            if stop.load(Ordering::Relaxed) {
                                break;
                            }
                            let fi = next.fetch_add(1, Ordering::Relaxed);
                            if fi >= paths.len() {
                                break;
                            }
                            let path = &paths[fi];
                            let fname: Vec<&str> = path.iter().map(|&i| ALPHABET[i].name).collect();
                            let fname = fname.join(">");
                            'family: for position in 0..2 {
                                for v in 0..3 {
                                    for &d in depths.iter() {
                                        let text = build(path, d, v, position);
                                        let root = syntax::parse(&text);
                                        if root.erroneous() {
                                            continue;
                                        }
                                        local_texts.insert(tyv_model::sweep::h64(&text, 0));
                                        let nodes = count_nodes(&root);
                                        for &w in &widths {
                                            let what = format!("family={fname} position={position} variant={v} depth={d} width={w}");
                                            *current[wi].lock().unwrap() = Some((Instant::now(), format!("{what} input={}", esc(&text))));
                                            let t0 = Instant::now();
                                            let src = Source::detached(text.as_str());
                                            verif_hooks::start_counting();
                                            let r = guarded(|| Typstyle::new(Config { max_width: w, ..Default::default() }).format_source(&src));
                                            let counters = verif_hooks::stop_counting();
                                            let us = t0.elapsed().as_micros() as u64;
                                            *current[wi].lock().unwrap() = None;
                                            calls.fetch_add(1, Ordering::Relaxed);
                                            slowest_us.fetch_max(us, Ordering::Relaxed);
                                            let max_node = counters.per_node.values().copied().max().unwrap_or(0);
                                            max_per_node_seen.fetch_max(max_node as u64, Ordering::Relaxed);
                                            let ratio = counters.conversions * 1000 / nodes.max(1);
                                            max_ratio_milli.fetch_max(ratio, Ordering::Relaxed);
                                            let mut fail: Option<(String, String)> = None;
                                            if let Err(msg) = &r {
                                                fail = Some(("panic".into(), format!("panic: {msg}")));
                                            } else if max_node > MAX_PER_NODE {
                                                fail = Some((
                                                    "node-converted-too-often".into(),
                                                    format!("a node was converted {max_node} times (bound {MAX_PER_NODE}); {} conversions for {} nodes, {} bytes, {us} us", counters.conversions, nodes, text.len()),
                                                ));
                                            } else if counters.conversions > MAX_PER_NODE as u64 * nodes {
                                                fail = Some((
                                                    "too-many-conversions".into(),
                                                    format!("{} conversions for {} nodes ({} bytes)", counters.conversions, nodes, text.len()),
                                                ));
                                            }
                                            if d == depths[depths.len() - 1] && w == 40 && v == 0 {
                                                let mut s = samples.lock().unwrap();
                                                if s.len() < 6 && (fi as u64 + seed) % 7 == 0 {
                                                    s.push(json!({"family": fname, "position": position, "depth": d, "width": w, "bytes": text.len(), "nodes": nodes,
                                                        "conversions": counters.conversions, "max_conversions_of_one_node": max_node, "micros": us,
                                                        "input_head": text.chars().take(120).collect::<String>()}));
                                                }
                                            }
                                            if let Some((clause, detail)) = fail {
                                                failures.lock().unwrap().push(Failure {
                                                    property: "C18".into(),
                                                    signature: format!("C18|{clause}|family={fname}"),
                                                    clause,
                                                    input: text.clone(),
                                                    cfg: Some(Cfg::w(w)),
                                                    detail: format!("{what}: {detail}"),
                                                    derivation: what,
                                                    extra: json!({"family": fname, "depth": d, "position": position, "variant": v}),
                                                    count: 1,
                                                });
                                                // deeper steps of a blowing-up family would not terminate: stop this family
                                                break 'family;
                                            }
                                        }
                                    }
                                }
                            }
                            families_done.fetch_add(1, Ordering::Relaxed);
                        }
                        texts.lock().unwrap().extend(local_texts);
                    })
                    .unwrap(),
            );
        }
        for h in handles {
            let _ = h.join();
        }
        finished.store(true, Ordering::Relaxed);
    });

    let done = families_done.load(Ordering::Relaxed);
    let exhaustive = done == paths.len();
    let n_texts = texts.lock().unwrap().len() as u64;
    let mut cov = Coverage {
        states: n_texts,
        transitions: calls.load(Ordering::Relaxed),
        evaluations: calls.load(Ordering::Relaxed),
        distinct_nontrivial: n_texts,
        rule: format!(
            "all cyclic nesting paths of length <= {} over the {}-construct recursive alphabet (sort compatible), each unrolled to depths {:?} in markup and in code position, innermost atom plain / with comment / multi-line, widths {:?}; per format call the hook counters give conversions per node; bound: every node converted <= {} times at every depth and total conversions <= {} x nodes. Non-trivial = distinct well-formed ladder input (all have nesting depth >= 4)",
            max_len,
            ALPHABET.len(),
            depths,
            widths,
            MAX_PER_NODE,
            MAX_PER_NODE
        ),
        samples: samples.into_inner().unwrap(),
        exhaustive,
        completed_levels: vec![format!("{done} of {} families", paths.len())],
        incomplete_level: if exhaustive { None } else { Some("wall cap".into()) },
        extra: Default::default(),
    };
    if cov.samples.is_empty() {
        cov.samples.push(json!({"family": "call_arg", "input": build(&[0], 4, 0, 0)}));
    }
    cov.extra.insert("families".into(), json!(paths.len()));
    cov.extra.insert("families_completed".into(), json!(done));
    cov.extra.insert("max_conversions_of_one_node_seen".into(), json!(max_per_node_seen.load(Ordering::Relaxed)));
    cov.extra.insert("max_conversions_per_node_ratio".into(), json!(max_ratio_milli.load(Ordering::Relaxed) as f64 / 1000.0));
    cov.extra.insert("slowest_call_us".into(), json!(slowest_us.load(Ordering::Relaxed)));
    let out = Outcome {
        property: "C18".into(),
        tier: tier.into(),
        seed,
        coverage: cov,
        assumptions: vec![
            "the counter sees the conversion entry points convert_expr / convert_pattern / convert_markup_impl / convert_math / convert_arg (hooks under --cfg typstyle_verif); cost inside the `pretty` renderer is only covered by the 20 s hang watchdog".into(),
            "a ladder stops at the first depth that violates the bound, so an exponential family is reported at depth 4 without being run at depth 32".into(),
        ],
        failures: failures.into_inner().unwrap(),
        wall_s: start.elapsed().as_secs_f64(),
    };
    report::finish(out, &|_| false)
}
