//! Minimal in-memory `typst::World`: compile a source text as a paged document,
//! render every page, and reduce the result to a small comparable value.

use std::panic::{catch_unwind, AssertUnwindSafe};
use std::sync::LazyLock;

use typst::diag::{FileError, FileResult, PackageError, Severity};
use typst::foundations::{Bytes, Datetime};
use typst::layout::PagedDocument;
use typst::syntax::{FileId, Source, VirtualPath};
use typst::text::{Font, FontBook};
use typst::utils::LazyHash;
use typst::{Library, World};

/// Pixels per pt used for rendering.
pub const PIXEL_PER_PT: f32 = 2.0;

/// Pages with more pixels than this are not rasterised (a 16-thread caller would
/// run out of memory); the hash of such a page is the FNV-1a hash of
/// `format!("{:?}", page.frame)` instead of the hash of the pixmap bytes.
pub const MAX_PAGE_PIXELS: u64 = 32 << 20;

/// Result of compiling + rendering one source text.
#[derive(Debug, Clone, PartialEq, Eq)]
pub enum Compiled {
    /// compiled: per page (width_px, height_px, 64-bit FNV-1a hash of the RGBA pixmap bytes),
    /// plus `format!("{:?}", document.info)`
    Ok { pages: Vec<(u32, u32, u64)>, info: String },
    /// failed: the list of error diagnostics' messages, in order (message text only, no spans)
    Err(Vec<String>),
}

struct Shared {
    library: LazyHash<Library>,
    book: LazyHash<FontBook>,
    fonts: Vec<Font>,
    main_id: FileId,
    module_id: FileId,
}

static SHARED: LazyLock<Shared> = LazyLock::new(|| {
    let fonts: Vec<Font> = typst_assets::fonts()
        .flat_map(|data| Font::iter(Bytes::new(data)))
        .collect();
    Shared {
        library: LazyHash::new(Library::default()),
        book: LazyHash::new(FontBook::from_fonts(&fonts)),
        fonts,
        main_id: FileId::new(None, VirtualPath::new("/main.typ")),
        module_id: FileId::new(None, VirtualPath::new("/m.typ")),
    }
});

struct MemWorld {
    main: Source,
    module: Source,
}

impl MemWorld {
    fn lookup(&self, id: FileId) -> FileResult<&Source> {
        if id == SHARED.main_id {
            Ok(&self.main)
        } else if id == SHARED.module_id {
            Ok(&self.module)
        } else if let Some(spec) = id.package() {
            Err(FileError::Package(PackageError::NotFound(spec.clone())))
        } else {
            Err(FileError::NotFound(id.vpath().as_rootless_path().into()))
        }
    }
}

impl World for MemWorld {
    fn library(&self) -> &LazyHash<Library> {
        &SHARED.library
    }
    fn book(&self) -> &LazyHash<FontBook> {
        &SHARED.book
    }
    fn main(&self) -> FileId {
        SHARED.main_id
    }
    fn source(&self, id: FileId) -> FileResult<Source> {
        self.lookup(id).cloned()
    }
    fn file(&self, id: FileId) -> FileResult<Bytes> {
        self.lookup(id).map(|s| Bytes::from_string(s.text().to_string()))
    }
    fn font(&self, index: usize) -> Option<Font> {
        SHARED.fonts.get(index).cloned()
    }
    fn today(&self, _offset: Option<i64>) -> Option<Datetime> {
        Datetime::from_ymd(2024, 1, 1)
    }
}

fn fnv1a(bytes: &[u8]) -> u64 {
    let mut h: u64 = 0xcbf2_9ce4_8422_2325;
    for &b in bytes {
        h ^= b as u64;
        h = h.wrapping_mul(0x0000_0100_0000_01b3);
    }
    h
}

/// Same rounding as `typst_render::render`.
fn px(pt: f64) -> u32 {
    (PIXEL_PER_PT * pt as f32).round().max(1.0) as u32
}

fn compile_inner(main: &str, module_src: &str) -> Compiled {
    let world = MemWorld {
        main: Source::new(SHARED.main_id, main.to_string()),
        module: Source::new(SHARED.module_id, module_src.to_string()),
    };
    let doc = match typst::compile::<PagedDocument>(&world).output {
        Ok(doc) => doc,
        Err(diags) => {
            return Compiled::Err(
                diags
                    .iter()
                    .filter(|d| d.severity == Severity::Error)
                    .map(|d| d.message.to_string())
                    .collect(),
            )
        }
    };
    let pages = doc
        .pages
        .iter()
        .map(|page| {
            let size = page.frame.size();
            let (w, h) = (px(size.x.to_pt()), px(size.y.to_pt()));
            if w as u64 * h as u64 > MAX_PAGE_PIXELS {
                return (w, h, fnv1a(format!("{:?}", page.frame).as_bytes()));
            }
            let pixmap = typst_render::render(page, PIXEL_PER_PT);
            (pixmap.width(), pixmap.height(), fnv1a(pixmap.data()))
        })
        .collect();
    Compiled::Ok { pages, info: format!("{:?}", doc.info) }
}

/// Compile `main` as the main file "/main.typ" of an in-memory world and render every page at 2 pixels per pt.
/// The world also contains a virtual module file "/m.typ" with the content `module_src`.
/// Deterministic: fixed date (2024-01-01), embedded fonts of typst-assets only, no packages, no other files
/// (any other file access -> FileError::NotFound; package imports -> error).
/// Never panics: a panic inside typst is reported as `Compiled::Err(vec!["<panic>: ..."])`.
pub fn compile(main: &str, module_src: &str) -> Compiled {
    match catch_unwind(AssertUnwindSafe(|| compile_inner(main, module_src))) {
        Ok(c) => c,
        Err(payload) => {
            let msg = payload
                .downcast_ref::<String>()
                .map(String::as_str)
                .or_else(|| payload.downcast_ref::<&str>().copied())
                .unwrap_or("?");
            Compiled::Err(vec![format!("<panic>: {msg}")])
        }
    }
}

/// comemo::evict(0) - callers invoke it every few hundred compiles to bound memory.
pub fn evict() {
    comemo::evict(0);
}

#[cfg(test)]
mod tests {
    use super::*;

    const DOC1: &str = "#set page(width: 120pt, height: 60pt)\nHello *world* $x^2$";

    #[test]
    fn one_page_and_deterministic() {
        let a = compile(DOC1, "");
        let b = compile(DOC1, "");
        match &a {
            Compiled::Ok { pages, .. } => {
                assert_eq!(pages.len(), 1);
                assert_eq!((pages[0].0, pages[0].1), (240, 120));
            }
            other => panic!("{other:?}"),
        }
        assert_eq!(a, b);
        evict();
        assert_eq!(a, compile(DOC1, ""));
        // a visible change changes the hash
        assert_ne!(a, compile(&DOC1.replace("world", "w0rld"), ""));
    }

    #[test]
    fn module_import() {
        let a = compile("#import \"m.typ\": a\n#a", "#let a = [A]");
        assert!(matches!(a, Compiled::Ok { .. }), "{a:?}");
        assert_eq!(a, compile("A", ""));
        assert_ne!(a, compile("#import \"m.typ\": a\n#a", "#let a = [B]"));
    }

    #[test]
    fn errors() {
        let a = compile("#let x = ", "");
        assert!(matches!(&a, Compiled::Err(m) if !m.is_empty()), "{a:?}");
        let b = compile("#import \"other.typ\": a", "");
        assert!(matches!(&b, Compiled::Err(m) if m[0].contains("not found")), "{b:?}");
        let c = compile("#import \"@preview/cetz:0.3.0\": a", "");
        assert!(matches!(&c, Compiled::Err(m) if !m[0].starts_with("<panic>")), "{c:?}");
        let d = compile("#panic(\"x\")", "");
        assert!(matches!(&d, Compiled::Err(_)), "{d:?}");
    }

    #[test]
    fn huge_page_is_not_rasterised() {
        let a = compile("#set page(width: 100000pt, height: 100000pt)\nx", "");
        assert!(matches!(&a, Compiled::Ok { pages, .. } if pages[0].0 == 200000), "{a:?}");
    }

    #[test]
    fn concurrent() {
        let want = compile(DOC1, "");
        std::thread::scope(|s| {
            for _ in 0..16 {
                s.spawn(|| {
                    for _ in 0..20 {
                        assert_eq!(compile(DOC1, ""), want);
                    }
                });
            }
        });
    }
}
