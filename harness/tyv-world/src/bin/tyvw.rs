//! `tyvw [FILE] [MODULE_FILE]`: print the `Compiled` value of FILE (or of stdin).
//! `tyvw --demo`: the demonstration + timing loop.

use std::io::Read;
use std::time::Instant;

use tyv_world::{compile, evict, Compiled};

fn demo() {
    let doc1 = "#set page(width: 120pt, height: 60pt)\nHello *world* $x^2$";
    let t = Instant::now();
    let a = compile(doc1, "");
    println!("(1) first compile (incl. fonts + library init) {:?}: {a:?}", t.elapsed());
    let b = compile(doc1, "");
    assert!(matches!(&a, Compiled::Ok { pages, .. } if pages.len() == 1));
    assert_eq!(a, b);
    println!("(1) second compile identical: {}", a == b);

    let m = compile("#import \"m.typ\": a\n#a", "#let a = [A]");
    println!("(2) {m:?}");
    assert!(matches!(m, Compiled::Ok { .. }));

    let e = compile("#let x = ", "");
    println!("(3) {e:?}");
    assert!(matches!(e, Compiled::Err(_)));

    // (4) timing, after the warm-up above. "same": identical text, comemo cache warm.
    // "distinct": a different text each time (what a sweep does). "cold": evict() before each compile.
    let n = 200;
    let t = Instant::now();
    for _ in 0..n {
        assert_eq!(compile(doc1, ""), a);
    }
    println!("(4) same text      x{n}: mean {:?} per compile+render", t.elapsed() / n);
    let t = Instant::now();
    for i in 0..n {
        let c = compile(&format!("{doc1} {i}"), "");
        assert!(matches!(c, Compiled::Ok { .. }));
    }
    println!("(4) distinct texts x{n}: mean {:?} per compile+render", t.elapsed() / n);
    let t = Instant::now();
    for _ in 0..n {
        evict();
        assert_eq!(compile(doc1, ""), a);
    }
    println!("(4) evict each time x{n}: mean {:?} per compile+render", t.elapsed() / n);
    // default A4 page: 1191 x 1684 px, the cost is dominated by rasterising + hashing 8 MB
    let t = Instant::now();
    for i in 0..n {
        let c = compile(&format!("Hello *world* $x^2$ {i}"), "");
        assert!(matches!(c, Compiled::Ok { .. }));
    }
    println!("(4) distinct, A4   x{n}: mean {:?} per compile+render", t.elapsed() / n);
}

fn main() {
    let args: Vec<String> = std::env::args().skip(1).collect();
    if args.first().map(String::as_str) == Some("--demo") {
        return demo();
    }
    let main = match args.first() {
        Some(path) => std::fs::read_to_string(path).expect("read main file"),
        None => {
            let mut s = String::new();
            std::io::stdin().read_to_string(&mut s).expect("read stdin");
            s
        }
    };
    let module = match args.get(1) {
        Some(path) => std::fs::read_to_string(path).expect("read module file"),
        None => String::new(),
    };
    println!("{:?}", compile(&main, &module));
}
